import Operon.Lemmas.C11
import Operon.Gen.ChaperoneTables
/-!
# C11 — output validator: 'valid' implies the schema holds; clean JSON is taken verbatim

Property theorems only.  Model: `Operon/Model/Chaperone.lean`, tied to
`operon_ai/organelles/chaperone.py` by the environment-recording correspondence of `harness/vf/props/c11.py`
(the library environment is evaluated by the harness on the texts that occur; the only interception is
`model_validate` on the generated schema classes; the model must make exactly those calls and reach the same
observation).

Every statement quantifies over **every** environment `env` (any behaviour of those library functions,
including raising any exception class), every raw text, every constructor and per-call strategy list
(any order, any subset, duplicates, empty) and every prior state of the statistics counters.

`Derived env raw s d` (Lemmas) says how the JSON value `d` was obtained from the raw text under strategy `s`:
strict — `json.loads(raw.strip())`; extraction — `json.loads(m.strip())` for a match `m` of one of the five
extraction patterns in `raw`; repair — `json.loads` of the ten-step repair chain applied to `raw.strip()`;
lenient — the coercion helper applied to a non-null value that is present in `raw` in one of the first two senses.
-/
namespace Operon.Chaperone

variable {J S C : Type}

/-! ## a concrete environment for the non-vacuity examples

The text `{}` parses to the JSON value `1`, which validates to the structure `7`; `[]` parses to `2`, which
the schema rejects; nothing else parses.  Pattern 3 (bare object) finds `{}` inside `x{}`. -/

def toyEnv : Env Nat Nat Nat where
  loads t := if t = [123, 125] then .ok 1 else if t = [91, 93] then .ok 2 else .raise .jsonDecode
  isNone _ := false
  findall i t := if i = 3 ∧ t = [120, 123, 125] then .ok [[123, 125]] else .ok []
  sub _ t := .ok t
  validate d := if d = 1 then .ok 7 else .raise .validation
  coerce d := .ok (d, [])
  patterns := patternIds
  repairs := repairIds

/-- ` {} ` (clean JSON with surrounding blanks), `x{}` (JSON inside prose), `[]` (JSON the schema rejects) -/
def rawClean : Text := [32, 123, 125, 32]
def rawProse : Text := [120, 123, 125]
def rawBad : Text := [91, 93]

/-! ## No raw text makes folding raise -/

/-- `fold` and `fold_enhanced` always return a result object: whatever the library functions do (return
    anything, raise anything, on any call), no exception leaves the strategy cascade. -/
theorem c11_total (env : Env J S C) (cfg : Cfg) (st : Stats) (raw : Text) (call : List Strategy) :
    (∃ r, (fold env cfg st raw call).res = .ok r) ∧ (∃ r, (foldX env cfg st raw call).res = .ok r) := by
  rcases foldBoth_spec env cfg st raw call with ⟨tr, _, hx, hp⟩ | ⟨tpre, pre, s, post, x, _, _, _, _, hx, hp⟩
  · exact ⟨⟨_, by rw [hp]⟩, ⟨_, by rw [hx]⟩⟩
  · exact ⟨⟨_, by rw [hp]⟩, ⟨_, by rw [hx]⟩⟩

/-! ## 'valid' implies validated, and obtained from the raw text -/

/-- Whenever `fold_enhanced` reports valid, the returned structure is the result of a successful
    `schema.model_validate d`, where `d` was obtained from the raw text in the way of the strategy that is reported
    as used (`Derived`), that strategy is one of the requested ones, no error trace is set, and the very last
    library call made is that successful `model_validate` (nothing touches the structure afterwards). -/
theorem c11_valid_is_validated_enhanced (env : Env J S C) (cfg : Cfg) (st st' : Stats) (raw : Text)
    (call : List Strategy) (r : FoldedX S C)
    (h : (foldX env cfg st raw call).res = .ok (st', r)) (hv : r.valid = true) :
    ∃ s ∈ effective cfg call, ∃ d v, r.struct = some v ∧ env.validate d = .ok v ∧ Derived env raw s d ∧
      r.strategyUsed = some s ∧ r.err = none ∧
      (foldX env cfg st raw call).trace.getLast? = some (.validate d (.ok v)) := by
  rcases foldBoth_spec env cfg st raw call with ⟨tr, _, hx, _⟩ | ⟨tpre, pre, s, post, x, hstrs, _, hr, hxv, hx, _⟩
  · rw [hx] at h; simp at h; obtain ⟨_, rfl⟩ := h; simp at hv
  · obtain ⟨d, v, hshape, hval, hder, hend⟩ := attemptX_valid env raw s x hr hxv
    rw [hx] at h ⊢
    simp at h
    obtain ⟨_, rfl⟩ := h
    refine ⟨s, by simp [hstrs], d, v, ?_, hval, hder, ?_, ?_, (hend.append_left tpre).getLast?⟩
    · cases s <;> simp only [SuccessShape] at hshape
      · rw [hshape]
      · obtain ⟨i, hs⟩ := hshape; rw [hs]
      · obtain ⟨cs, hs⟩ := hshape; rw [hs]
      · obtain ⟨ns, hs⟩ := hshape; rw [hs]
    · cases s <;> simp only [SuccessShape] at hshape
      · rw [hshape]
      · obtain ⟨i, hs⟩ := hshape; rw [hs]
      · obtain ⟨cs, hs⟩ := hshape; rw [hs]
      · obtain ⟨ns, hs⟩ := hshape; rw [hs]
    · cases s <;> simp only [SuccessShape] at hshape
      · rw [hshape]; rfl
      · obtain ⟨i, hs⟩ := hshape; rw [hs]; rfl
      · obtain ⟨cs, hs⟩ := hshape; rw [hs]; rfl
      · obtain ⟨ns, hs⟩ := hshape; rw [hs]; rfl

example : ∃ st' r, (foldX toyEnv (Cfg.new []) Stats.zero rawProse []).res = .ok (st', r) ∧ r.valid = true ∧
    r.struct = some 7 ∧ r.strategyUsed = some .extraction := ⟨_, _, rfl, rfl, rfl, rfl⟩

/-- The same for the plain `fold`: valid ⇒ the structure is the result of a successful `model_validate d` with
    `d` derived from the raw text by one of the requested strategies, no error trace, and the last library call
    is that `model_validate`. -/
theorem c11_valid_is_validated (env : Env J S C) (cfg : Cfg) (st st' : Stats) (raw : Text)
    (call : List Strategy) (r : Folded S)
    (h : (fold env cfg st raw call).res = .ok (st', r)) (hv : r.valid = true) :
    ∃ s ∈ effective cfg call, ∃ d v, r.struct = some v ∧ env.validate d = .ok v ∧ Derived env raw s d ∧
      r.err = none ∧ (fold env cfg st raw call).trace.getLast? = some (.validate d (.ok v)) := by
  rcases foldBoth_spec env cfg st raw call with ⟨tr, _, _, hp⟩ | ⟨tpre, pre, s, post, x, hstrs, _, hr, hxv, _, hp⟩
  · rw [hp] at h; simp at h; obtain ⟨_, rfl⟩ := h; simp at hv
  · obtain ⟨d, v, hshape, hval, hder, hend⟩ := attemptX_valid env raw s x hr hxv
    rw [hp] at h ⊢
    simp at h
    obtain ⟨_, rfl⟩ := h
    refine ⟨s, by simp [hstrs], d, v, ?_, hval, hder, rfl, (hend.append_left tpre).getLast?⟩
    cases s <;> simp only [SuccessShape] at hshape
    · rw [hshape]
    · obtain ⟨i, hs⟩ := hshape; rw [hs]
    · obtain ⟨cs, hs⟩ := hshape; rw [hs]
    · obtain ⟨ns, hs⟩ := hshape; rw [hs]

example : ∃ st' r, (fold toyEnv (Cfg.new []) Stats.zero rawProse []).res = .ok (st', r) ∧ r.valid = true ∧
    r.struct = some 7 := ⟨_, _, rfl, rfl, rfl⟩

/-- Every entry of the call trace is a genuine call: the result recorded next to an argument is what the
    environment answers for that argument (so statements about the trace are statements about the library). -/
theorem c11_trace_faithful (env : Env J S C) (cfg : Cfg) (st : Stats) (raw : Text) (call : List Strategy) :
    (∀ c ∈ (foldX env cfg st raw call).trace, c.Faithful env) ∧
    (∀ c ∈ (fold env cfg st raw call).trace, c.Faithful env) := by
  have hx := faithful_foldX env cfg st raw call
  refine ⟨hx, ?_⟩
  rcases foldBoth_spec env cfg st raw call with ⟨tr, _, h1, h2⟩ | ⟨tpre, pre, s, post, x, _, _, _, _, h1, h2⟩
  · intro c hc; rw [h2] at hc; apply hx; rw [h1]; exact hc
  · intro c hc; rw [h2] at hc; apply hx; rw [h1]; exact hc

/-! ## 'invalid' carries no structure and an error trace -/

/-- When `fold_enhanced` reports invalid: no structure, the error trace is the "All n folding strategies
    failed" message with n the number of strategies requested, confidence 0, no strategy reported as used, and
    exactly one failed attempt is recorded per requested strategy, in order. -/
theorem c11_invalid_has_no_structure_and_a_trace_enhanced (env : Env J S C) (cfg : Cfg) (st st' : Stats)
    (raw : Text) (call : List Strategy) (r : FoldedX S C)
    (h : (foldX env cfg st raw call).res = .ok (st', r)) (hv : r.valid = false) :
    r.struct = none ∧ r.err = some (.allFailed (effective cfg call).length) ∧ r.confidence = 0 ∧
    r.strategyUsed = none ∧ r.attempts.map (·.strategy) = effective cfg call ∧
    (∀ a ∈ r.attempts, a.success = false) := by
  rcases foldBoth_spec env cfg st raw call with ⟨tr, _, hx, _⟩ | ⟨tpre, pre, s, post, x, _, _, _, hxv, hx, _⟩
  · rw [hx] at h; simp at h; obtain ⟨_, rfl⟩ := h
    refine ⟨rfl, rfl, rfl, rfl, ?_, ?_⟩
    · simp [failRec, Function.comp_def]
    · intro a ha; simp [failRec] at ha; obtain ⟨s, _, rfl⟩ := ha; rfl
  · rw [hx] at h; simp at h; obtain ⟨_, rfl⟩ := h; simp [hxv] at hv

example : ∃ st' r, (foldX toyEnv (Cfg.new []) Stats.zero rawBad []).res = .ok (st', r) ∧ r.valid = false ∧
    r.err = some (.allFailed 4) ∧ r.attempts.length = 4 := ⟨_, _, rfl, rfl, rfl, rfl⟩

/-- When `fold` reports invalid: no structure, and the error trace is the "All n folding strategies failed"
    message with n the number of strategies requested. -/
theorem c11_invalid_has_no_structure_and_a_trace (env : Env J S C) (cfg : Cfg) (st st' : Stats)
    (raw : Text) (call : List Strategy) (r : Folded S)
    (h : (fold env cfg st raw call).res = .ok (st', r)) (hv : r.valid = false) :
    r.struct = none ∧ r.err = some (.allFailed (effective cfg call).length) := by
  rcases foldBoth_spec env cfg st raw call with ⟨tr, _, _, hp⟩ | ⟨tpre, pre, s, post, x, _, _, _, _, _, hp⟩
  · rw [hp] at h; simp at h; obtain ⟨_, rfl⟩ := h; exact ⟨rfl, rfl⟩
  · rw [hp] at h; simp at h; obtain ⟨_, rfl⟩ := h; simp at hv

example : ∃ st' r, (fold toyEnv (Cfg.new []) Stats.zero rawBad [.strict, .repair]).res = .ok (st', r) ∧ r.valid = false ∧
    r.err = some (.allFailed 2) := ⟨_, _, rfl, rfl, rfl⟩

/-- Both folds echo the raw text they were given. -/
theorem c11_raw_is_echoed (env : Env J S C) (cfg : Cfg) (st : Stats) (raw : Text) (call : List Strategy) :
    (∀ st' r, (fold env cfg st raw call).res = .ok (st', r) → r.raw = raw) ∧
    (∀ st' r, (foldX env cfg st raw call).res = .ok (st', r) → r.raw = raw) := by
  rcases foldBoth_spec env cfg st raw call with ⟨tr, _, hx, hp⟩ | ⟨tpre, pre, s, post, x, _, _, _, _, hx, hp⟩
  · constructor <;> intro st' r h
    · rw [hp] at h; simp at h; obtain ⟨_, rfl⟩ := h; rfl
    · rw [hx] at h; simp at h; obtain ⟨_, rfl⟩ := h; rfl
  · constructor <;> intro st' r h
    · rw [hp] at h; simp at h; obtain ⟨_, rfl⟩ := h; rfl
    · rw [hx] at h; simp at h; obtain ⟨_, rfl⟩ := h; rfl

/-! ## Clean JSON is taken verbatim by the strict strategy -/

/-- If the raw text is already schema-valid JSON (`json.loads(raw.strip())` gives `d` and `model_validate d`
    gives `v`) and STRICT is the first requested strategy, then `fold_enhanced` makes exactly those two library
    calls and nothing else (no regex, no repair, no coercion touches the text), and returns valid with
    structure `v`, confidence 1, no coercions, strategy STRICT and a single successful attempt. -/
theorem c11_strict_takes_clean_json_verbatim_enhanced (env : Env J S C) (cfg : Cfg) (st : Stats) (raw : Text)
    (call rest : List Strategy) (d : J) (v : S)
    (hl : env.loads (strip raw) = .ok d) (hval : env.validate d = .ok v)
    (hfirst : effective cfg call = .strict :: rest) :
    foldX env cfg st raw call =
      ⟨[.loads (strip raw) (.ok d), .validate d (.ok v)],
       .ok (⟨st.total + 1, st.successful + 1, bump st.succ .strict, bump st.att .strict⟩,
            ⟨true, some v, raw, none, [⟨.strict, true, none⟩], 1, [], some .strict⟩)⟩ := by
  unfold foldX
  rw [hfirst]
  unfold loopX
  simp [attemptX, foldStrictX_clean env raw d v hl hval]

example : effective (Cfg.new []) [] = .strict :: [.extraction, .lenient, .repair] ∧
    toyEnv.loads (strip rawClean) = .ok 1 ∧ toyEnv.validate 1 = .ok 7 := ⟨rfl, rfl, rfl⟩

/-- The same for the plain `fold`: exactly the two calls, valid, structure `v`, no error trace. -/
theorem c11_strict_takes_clean_json_verbatim (env : Env J S C) (cfg : Cfg) (st : Stats) (raw : Text)
    (call rest : List Strategy) (d : J) (v : S)
    (hl : env.loads (strip raw) = .ok d) (hval : env.validate d = .ok v)
    (hfirst : effective cfg call = .strict :: rest) :
    fold env cfg st raw call =
      ⟨[.loads (strip raw) (.ok d), .validate d (.ok v)],
       .ok (⟨st.total + 1, st.successful + 1, bump st.succ .strict, bump st.att .strict⟩,
            ⟨true, some v, raw, none⟩)⟩ := by
  unfold fold
  rw [hfirst]
  unfold loopP
  have h : foldStrict env raw = ⟨[.loads (strip raw) (.ok d), .validate d (.ok v)], .ok ⟨true, some v, none⟩⟩ := by
    rw [foldStrict_eq, foldStrictX_clean env raw d v hl hval]; rfl
  simp [attemptP, h]

example : (fold toyEnv (Cfg.new [.strict]) Stats.zero rawClean []).trace =
    [.loads [123, 125] (.ok 1), .validate 1 (.ok 7)] := rfl

/-- The default configuration (no constructor strategies, no per-call strategies) starts with STRICT, so the
    two theorems above apply to it. -/
theorem c11_default_starts_with_strict (call : List Strategy) (hc : call = []) :
    effective (Cfg.new []) call = .strict :: [.extraction, .lenient, .repair] := by
  subst hc; rfl

/-- Schema-valid JSON is never rejected when STRICT is among the requested strategies, wherever it stands
    in the list (an earlier strategy may have accepted the text first, but the fold is valid). -/
theorem c11_clean_json_is_accepted (env : Env J S C) (cfg : Cfg) (st : Stats) (raw : Text)
    (call : List Strategy) (d : J) (v : S)
    (hl : env.loads (strip raw) = .ok d) (hval : env.validate d = .ok v)
    (hmem : .strict ∈ effective cfg call) :
    (∀ st' r, (fold env cfg st raw call).res = .ok (st', r) → r.valid = true) ∧
    (∀ st' r, (foldX env cfg st raw call).res = .ok (st', r) → r.valid = true) := by
  rcases foldBoth_spec env cfg st raw call with ⟨tr, hf, _, _⟩ | ⟨tpre, pre, s, post, x, _, _, _, hxv, hx, hp⟩
  · have := hf .strict hmem ⟨true, some v, none, 1, [], some .strict⟩
      (by simp [attemptX, foldStrictX_clean env raw d v hl hval])
    simp at this
  · constructor <;> intro st' r h
    · rw [hp] at h; simp at h; obtain ⟨_, rfl⟩ := h; rfl
    · rw [hx] at h; simp at h; obtain ⟨_, rfl⟩ := h; exact hxv

example : Strategy.strict ∈ effective (Cfg.new [.repair, .strict]) [] := by decide

/-! ## The plain and enhanced folds agree -/

/-- On the same chaperone state, raw text and strategies, `fold` and `fold_enhanced` make exactly the same
    library calls in the same order, leave the same statistics, and agree on validity, structure and echoed
    raw text. -/
theorem c11_plain_and_enhanced_agree (env : Env J S C) (cfg : Cfg) (st : Stats) (raw : Text)
    (call : List Strategy) :
    (fold env cfg st raw call).trace = (foldX env cfg st raw call).trace ∧
    ∃ st' p x, (fold env cfg st raw call).res = .ok (st', p) ∧ (foldX env cfg st raw call).res = .ok (st', x) ∧
      p.valid = x.valid ∧ p.struct = x.struct ∧ p.raw = x.raw := by
  rcases foldBoth_spec env cfg st raw call with ⟨tr, _, hx, hp⟩ | ⟨tpre, pre, s, post, x, _, _, _, hxv, hx, hp⟩
  · rw [hx, hp]; exact ⟨rfl, _, _, _, rfl, rfl, rfl, rfl, rfl⟩
  · rw [hx, hp]; exact ⟨rfl, _, _, _, rfl, rfl, hxv.symm, rfl, rfl⟩

/-! ## Confidence -/

/-- The confidence reported by `fold_enhanced` lies in [0, 1]; it is 1 exactly when the fold is valid through
    the STRICT strategy; it is 0 exactly when the fold is invalid. -/
theorem c11_confidence_unit_and_one_only_strict (env : Env J S C) (cfg : Cfg) (st st' : Stats) (raw : Text)
    (call : List Strategy) (r : FoldedX S C) (h : (foldX env cfg st raw call).res = .ok (st', r)) :
    0 ≤ r.confidence ∧ r.confidence ≤ 1 ∧
    (r.confidence = 1 ↔ (r.valid = true ∧ r.strategyUsed = some .strict)) ∧
    (r.confidence = 0 ↔ r.valid = false) := by
  rcases foldBoth_spec env cfg st raw call with ⟨tr, _, hx, _⟩ | ⟨tpre, pre, s, post, x, _, _, hr, hxv, hx, _⟩
  · rw [hx] at h; simp at h; obtain ⟨_, rfl⟩ := h
    simp; grind
  · obtain ⟨d, v, hshape, _, _, _⟩ := attemptX_valid env raw s x hr hxv
    rw [hx] at h; simp at h; obtain ⟨_, rfl⟩ := h
    cases s <;> simp only [SuccessShape] at hshape
    · rw [hshape]; simp; grind
    · obtain ⟨i, hs⟩ := hshape; rw [hs]; simp; grind
    · obtain ⟨cs, hs⟩ := hshape
      have hb := lenientConfidence_bounds cs.length
      rw [hs]; simp; grind
    · obtain ⟨ns, hs⟩ := hshape
      have hb := repairConfidence_bounds ns.length
      rw [hs]; simp; grind

/-- "1.0 only for strict", read from the other end: a report of `fold_enhanced` that shows full confidence, or names
    STRICT as the strategy used, says that nothing was extracted, repaired or dropped — the raw text itself, with only the
    white space around it removed (`strip`, see `c11_strip_removes_white_space_only`), is what `json.loads` read, and the
    structure is what `model_validate` made of exactly that value; STRICT was among the requested strategies.  (A text
    with a byte order mark or a zero-width character in front of the JSON is not such a text:
    `c11_invisible_code_points_are_not_white_space`.) -/
theorem c11_full_confidence_means_the_text_itself_is_json (env : Env J S C) (cfg : Cfg) (st st' : Stats) (raw : Text)
    (call : List Strategy) (r : FoldedX S C) (h : (foldX env cfg st raw call).res = .ok (st', r))
    (hc : r.confidence = 1 ∨ r.strategyUsed = some .strict) :
    .strict ∈ effective cfg call ∧ r.valid = true ∧ r.strategyUsed = some .strict ∧ r.confidence = 1 ∧
    ∃ d v, env.loads (strip raw) = .ok d ∧ env.validate d = .ok v ∧ r.struct = some v := by
  have hconf := c11_confidence_unit_and_one_only_strict env cfg st st' raw call r h
  have hvalid : r.valid = true ∧ r.strategyUsed = some .strict := by
    rcases hc with hc | hc
    · exact hconf.2.2.1.mp hc
    · cases hv : r.valid with
      | true => exact ⟨rfl, hc⟩
      | false =>
        have := (c11_invalid_has_no_structure_and_a_trace_enhanced env cfg st st' raw call r h hv).2.2.2.1
        rw [this] at hc; cases hc
  obtain ⟨s, hs, d, v, hst, hval, hder, hused, _, _⟩ :=
    c11_valid_is_validated_enhanced env cfg st st' raw call r h hvalid.1
  rw [hvalid.2] at hused
  cases hused
  exact ⟨hs, hvalid.1, hvalid.2, hconf.2.2.1.mpr hvalid, d, v, hder, hval, hst⟩

example : ∃ st' r, (foldX toyEnv (Cfg.new []) Stats.zero rawClean []).res = .ok (st', r) ∧ r.confidence = 1 ∧
    toyEnv.loads (strip rawClean) = .ok 1 := ⟨_, _, rfl, rfl, rfl⟩

/-- The same for the plain `fold`, which has no `strategy_used` field: the statistics say which strategy succeeded.  When
    a valid plain fold leaves the success counter of every strategy other than STRICT where it was, the raw text itself
    (white space around it aside) is what `json.loads` read and the structure is `model_validate` of that value. -/
theorem c11_plain_strict_success_means_the_text_itself_is_json (env : Env J S C) (cfg : Cfg) (st st' : Stats)
    (raw : Text) (call : List Strategy) (r : Folded S) (h : (fold env cfg st raw call).res = .ok (st', r))
    (hv : r.valid = true) (hother : ∀ s, s ≠ .strict → st'.succ s = st.succ s) :
    .strict ∈ effective cfg call ∧ st'.succ .strict = st.succ .strict + 1 ∧
    ∃ d v, env.loads (strip raw) = .ok d ∧ env.validate d = .ok v ∧ r.struct = some v := by
  rcases foldBoth_spec env cfg st raw call with ⟨tr, _, _, hp⟩ | ⟨tpre, pre, s, post, x, hstrs, _, hr, hxv, _, hp⟩
  · rw [hp] at h; simp at h; obtain ⟨_, rfl⟩ := h; simp at hv
  · obtain ⟨d, v, hshape, hval, hder, _⟩ := attemptX_valid env raw s x hr hxv
    rw [hp] at h
    simp at h
    obtain ⟨rfl, rfl⟩ := h
    have hs : s = .strict := by
      apply Classical.byContradiction
      intro hne
      have := hother s hne
      simp [bump] at this
    subst hs
    simp only [SuccessShape] at hshape
    refine ⟨by simp [hstrs], by simp [bump], d, v, hder, hval, ?_⟩
    rw [hshape]

example : ∃ st' r, (fold toyEnv (Cfg.new []) Stats.zero rawClean []).res = .ok (st', r) ∧ r.valid = true ∧
    (∀ s, s ≠ .strict → st'.succ s = Stats.zero.succ s) := ⟨_, _, rfl, rfl, by intro s hs; cases s <;> simp_all [bump, Stats.zero]⟩

/-- STRICT alone rejects what json parsing rejects: when `json.loads` of the stripped text raises (whatever it raises)
    and STRICT is the only requested strategy (any number of times), both folds report invalid — for a text with a byte
    order mark in front of the JSON as for any other. -/
theorem c11_strict_alone_rejects_what_json_parsing_rejects (env : Env J S C) (cfg : Cfg) (st : Stats) (raw : Text)
    (call : List Strategy) (e : Exc) (hl : env.loads (strip raw) = .raise e)
    (honly : ∀ s ∈ effective cfg call, s = .strict) :
    (∀ st' r, (fold env cfg st raw call).res = .ok (st', r) → r.valid = false ∧ r.struct = none) ∧
    (∀ st' r, (foldX env cfg st raw call).res = .ok (st', r) → r.valid = false ∧ r.struct = none ∧ r.confidence = 0) := by
  constructor
  · intro st' r h
    cases hv : r.valid with
    | false => exact ⟨rfl, (c11_invalid_has_no_structure_and_a_trace env cfg st st' raw call r h hv).1⟩
    | true =>
      obtain ⟨s, hs, d, v, _, _, hder, _, _⟩ := c11_valid_is_validated env cfg st st' raw call r h hv
      have := honly s hs
      subst this
      simp only [Derived] at hder
      rw [hl] at hder; cases hder
  · intro st' r h
    cases hv : r.valid with
    | false =>
      have := c11_invalid_has_no_structure_and_a_trace_enhanced env cfg st st' raw call r h hv
      exact ⟨rfl, this.1, this.2.2.1⟩
    | true =>
      obtain ⟨s, hs, d, v, _, _, hder, _, _, _⟩ := c11_valid_is_validated_enhanced env cfg st st' raw call r h hv
      have := honly s hs
      subst this
      simp only [Derived] at hder
      rw [hl] at hder; cases hder

/-- U+FEFF `{}`: a byte order mark in front of `{}`; the toy `json.loads` rejects it -/
example : toyEnv.loads (strip [0xfeff, 123, 125]) = .raise .jsonDecode ∧
    ∃ st' r, (foldX toyEnv (Cfg.new [.strict]) Stats.zero [0xfeff, 123, 125] []).res = .ok (st', r) ∧ r.valid = false :=
  ⟨by decide, _, _, rfl, rfl⟩

/-- `str.strip()` as the model has it removes white space and nothing else: the text is `a ++ strip t ++ b` with `a`
    and `b` all white space (`str.isspace`), and what remains neither starts nor ends with white space. -/
theorem c11_strip_removes_white_space_only (t : Text) :
    ∃ a b, t = a ++ strip t ++ b ∧ (∀ c ∈ a, isSpace c = true) ∧ (∀ c ∈ b, isSpace c = true) ∧
      (∀ c, (strip t).head? = some c → isSpace c = false) ∧ (∀ c, (strip t).getLast? = some c → isSpace c = false) :=
  strip_spec t

/-- Code points that look like nothing but are not white space — byte order mark, zero-width space / joiners, word
    joiner, soft hyphen, directional marks, NUL, DEL, noncharacters, a tag space, the braille blank: `strip` keeps them,
    so a text that starts (or ends) with one of them reaches `json.loads` with it. -/
theorem c11_invisible_code_points_are_not_white_space :
    (∀ c ∈ [0xfeff, 0x200b, 0x200c, 0x200d, 0x2060, 0xad, 0x180e, 0x61c, 0x200e, 0x200f, 0x202a, 0x202c, 0x2061, 0x2066,
             0x2069, 0xfff9, 0, 8, 0x1b, 0x7f, 0x84, 0x86, 0xfffe, 0xffff, 0xfffd, 0xe000, 0xe0001, 0xe0020, 0x1d173,
             0x2800, 0x3164, 0x115f, 0xfe0f, 0x34f], isSpace c = false) ∧
    (∀ (c : Nat) (t : Text), isSpace c = false → (strip (c :: t)).head? = some c) := by
  refine ⟨by decide, ?_⟩
  intro c t hc
  exact strip_keeps_head c t hc

example : strip [0xfeff, 123, 125, 32] = [0xfeff, 123, 125] := by decide

/-! ## Which strategy decides -/

/-- The result is that of the first requested strategy that succeeds: every strategy before it raised or
    returned invalid (and left exactly one failed attempt record each, in order), the last attempt record is
    the successful one, and if none succeeds every requested strategy failed. -/
theorem c11_first_successful_strategy_wins (env : Env J S C) (cfg : Cfg) (st st' : Stats) (raw : Text)
    (call : List Strategy) (r : FoldedX S C) (h : (foldX env cfg st raw call).res = .ok (st', r)) :
    (r.valid = false ∧ ∀ s ∈ effective cfg call, Fails (attemptX env raw) (·.valid) s) ∨
    (∃ pre s post x, effective cfg call = pre ++ s :: post ∧ (∀ s' ∈ pre, Fails (attemptX env raw) (·.valid) s') ∧
      (attemptX env raw s).res = .ok x ∧ x.valid = true ∧ r.valid = true ∧ r.struct = x.struct ∧
      r.attempts.map (·.strategy) = pre ++ [s] ∧ r.attempts.map (·.success) = pre.map (fun _ => false) ++ [true]) := by
  rcases foldBoth_spec env cfg st raw call with ⟨tr, hf, hx, _⟩ | ⟨tpre, pre, s, post, x, hstrs, hf, hr, hxv, hx, _⟩
  · rw [hx] at h; simp at h; obtain ⟨_, rfl⟩ := h
    exact Or.inl ⟨rfl, hf⟩
  · rw [hx] at h; simp at h; obtain ⟨_, rfl⟩ := h
    refine Or.inr ⟨pre, s, post, x, hstrs, hf, hr, hxv, hxv, rfl, ?_, ?_⟩
    · simp [failRec, Function.comp_def]
    · simp [failRec, Function.comp_def]

/-! ## Statistics -/

/-- After any history of `fold`, `fold_enhanced` and `reset_statistics` calls on a fresh chaperone, with any
    raw texts, any strategy lists and any library behaviour: `successful_folds` is the sum of the per-strategy
    success counters, no strategy succeeded more often than it was attempted, and
    `successful_folds ≤ total_folds`. -/
theorem c11_stats_consistent (env : Env J S C) (cfg : Cfg) (ops : List Op) :
    (runOps env cfg ops).Consistent := by
  unfold runOps
  have key : ∀ (ops : List Op) (st : Stats), st.Consistent → (ops.foldl (runOp env cfg) st).Consistent := by
    intro ops
    induction ops with
    | nil => intro st h; exact h
    | cons op ops ih => intro st h; exact ih _ (runOp_consistent env cfg st op h)
  exact key ops Stats.zero ⟨rfl, fun _ => Nat.le_refl _, Nat.le_refl _⟩

/-- One fold adds exactly one to `total_folds`, at most one to `successful_folds` (exactly when valid), and
    attempts each requested strategy at most once more per occurrence. -/
theorem c11_stats_step (env : Env J S C) (cfg : Cfg) (st st' : Stats) (raw : Text)
    (call : List Strategy) (r : FoldedX S C) (h : (foldX env cfg st raw call).res = .ok (st', r)) :
    st'.total = st.total + 1 ∧ st'.successful = st.successful + (if r.valid then 1 else 0) ∧
    (∀ s, st.att s ≤ st'.att s) := by
  rcases foldBoth_spec env cfg st raw call with ⟨tr, _, hx, _⟩ | ⟨tpre, pre, s, post, x, _, _, _, hxv, hx, _⟩
  · rw [hx] at h; simp at h; obtain ⟨rfl, rfl⟩ := h
    exact ⟨rfl, by simp, fun s => bumpAll_ge _ _ s⟩
  · rw [hx] at h; simp at h; obtain ⟨rfl, rfl⟩ := h
    exact ⟨rfl, by simp [hxv], fun s => bumpAll_ge _ _ s⟩

/-! ## Every report the API hands out is well formed -/

/-- valid ⇒ a structure and no error trace; invalid ⇒ no structure and an error trace -/
def Folded.WellFormed (p : Folded S) : Prop :=
  (p.valid = true → p.struct.isSome ∧ p.err = none) ∧ (p.valid = false → p.struct = none ∧ p.err.isSome)

/-- Every report handed out by `fold`, by `fold_enhanced` (its validity / structure / trace fields), and by any chain
    of `FoldedProtein.map` calls on a `fold` report — with arbitrary mapped functions that return or raise any
    exception class — is well formed: valid ⇒ a structure is present and no error trace is set; invalid ⇒ no
    structure and an error trace.  `map` calls the function exactly on valid reports, keeps the raw text, and a
    raising function yields an invalid report. -/
theorem c11_every_report_is_well_formed (env : Env J S C) (cfg : Cfg) (st : Stats) (raw : Text)
    (call : List Strategy) :
    (∀ st' p, (fold env cfg st raw call).res = .ok (st', p) →
      ∀ fs : List (S → Res S), (fs.foldl (fun q f => q.map f) p).WellFormed ∧ (fs.foldl (fun q f => q.map f) p).raw = raw) ∧
    (∀ st' x, (foldX env cfg st raw call).res = .ok (st', x) →
      (x.valid = true → x.struct.isSome ∧ x.err = none) ∧ (x.valid = false → x.struct = none ∧ x.err.isSome)) := by
  have hmap : ∀ (f : S → Res S) (q : Folded S), q.WellFormed → (q.map f).WellFormed ∧ (q.map f).raw = q.raw := by
    intro f q hq
    unfold Folded.map
    split
    · split
      · exact ⟨⟨fun _ => ⟨rfl, rfl⟩, fun h => (by cases h)⟩, rfl⟩
      · exact ⟨⟨fun h => (by cases h), fun _ => ⟨rfl, rfl⟩⟩, rfl⟩
    · exact ⟨hq, rfl⟩
  have hchain : ∀ (fs : List (S → Res S)) (q : Folded S), q.WellFormed →
      (fs.foldl (fun q f => q.map f) q).WellFormed ∧ (fs.foldl (fun q f => q.map f) q).raw = q.raw := by
    intro fs
    induction fs with
    | nil => intro q hq; exact ⟨hq, rfl⟩
    | cons f fs ih =>
      intro q hq
      obtain ⟨h1, h2⟩ := hmap f q hq
      obtain ⟨h3, h4⟩ := ih (q.map f) h1
      exact ⟨h3, by simpa [h2] using h4⟩
  constructor
  · intro st' p h fs
    have hwf : p.WellFormed ∧ p.raw = raw := by
      by_cases hv : p.valid = true
      · obtain ⟨_, _, _, v, hs, _, _, he, _⟩ := c11_valid_is_validated env cfg st st' raw call p h hv
        exact ⟨⟨fun _ => ⟨by simp [hs], he⟩, fun h' => (by rw [hv] at h'; cases h')⟩,
          (c11_raw_is_echoed env cfg st raw call).1 st' p h⟩
      · have hv' : p.valid = false := by simpa using hv
        obtain ⟨hs, he⟩ := c11_invalid_has_no_structure_and_a_trace env cfg st st' raw call p h hv'
        exact ⟨⟨fun h' => (by rw [hv'] at h'; cases h'), fun _ => ⟨hs, by simp [he]⟩⟩,
          (c11_raw_is_echoed env cfg st raw call).1 st' p h⟩
    obtain ⟨h1, h2⟩ := hchain fs p hwf.1
    exact ⟨h1, by rw [h2, hwf.2]⟩
  · intro st' x h
    constructor
    · intro hv
      obtain ⟨_, _, _, v, hs, _, _, _, he, _⟩ := c11_valid_is_validated_enhanced env cfg st st' raw call x h hv
      exact ⟨by simp [hs], he⟩
    · intro hv
      obtain ⟨hs, he, _⟩ := c11_invalid_has_no_structure_and_a_trace_enhanced env cfg st st' raw call x h hv
      exact ⟨hs, by simp [he]⟩

example : ∃ st' p, (fold toyEnv (Cfg.new []) Stats.zero rawProse []).res = .ok (st', p) ∧
    (p.map fun _ => .raise (.other 3)).valid = false ∧ (p.map fun _ => .raise (.other 3)).struct = none ∧
    (p.map fun s => .ok (s + 1)).struct = some 8 := ⟨_, _, rfl, rfl, rfl, rfl⟩

/-! ## Chaperone instances do not share configuration -/

/-- With several Chaperones alive THAT EACH OWN THEIR LIST (built from `None`, `[]`, or a list nobody else holds — the
    `World` model; instances built from one shared caller list are the subject of
    `c11_constructor_keeps_a_nonempty_caller_list` / `c11_in_place_edit_reaches_exactly_the_holders` over `Heap`):
    editing one instance's public `strategies` list in place (remove, reverse, append, clear), folding on it (which
    updates its counters) or creating a further instance leaves every other instance exactly as it was; and a newly
    created default-configured instance starts with the default order STRICT, EXTRACTION, LENIENT, REPAIR whatever
    happened to the instances before it. -/
theorem c11_instances_are_independent (w : World) (i j : Nat) (hij : j ≠ i) (t : Tune) (st : Stats)
    (ctor : List Strategy) :
    (w.tune i t)[j]? = w[j]? ∧ (w.setStats i st)[j]? = w[j]? ∧ (j < w.length → (w.create ctor)[j]? = w[j]?) ∧
    ((w.create []).tune i t)[w.length]?.map (·.cfg.strategies) =
      (if i = w.length then some ((Cfg.new []).tune t).strategies else some defaultStrategies) := by
  refine ⟨?_, ?_, ?_, ?_⟩
  · unfold World.tune
    split
    · rw [List.getElem?_set_ne (Ne.symm hij)]
    · rfl
  · unfold World.setStats
    split
    · rw [List.getElem?_set_ne (Ne.symm hij)]
    · rfl
  · intro hj
    unfold World.create
    rw [List.getElem?_append_left hj]
  · unfold World.tune World.create
    by_cases hi : i = w.length
    · subst hi
      simp
    · simp [hi]
      split
      · rw [List.getElem?_set_ne hi]
        simp [Cfg.new]
      · simp [Cfg.new]

example : (World.tune (World.create (World.create [] []) []) 0 (.remove .strict)).map (·.cfg.strategies) =
    [[.extraction, .lenient, .repair], [.strict, .extraction, .lenient, .repair]] := by decide

/-! ## The healing loop (`ChaperoneLoop.heal`) hands on the validator's verdict and keeps the confidence in range -/

/-- `heal` always returns a `HealingResult`, for every generator behaviour (any text at any attempt), every
    `confidence_decay` (any rational, also negative or huge), every `max_retries` and every library behaviour. -/
theorem c11_heal_total (env : Env J S C) (cfg : Cfg) (st : Stats) (decay : Rat) (maxRetries : Nat)
    (gen : Nat → Text) : ∃ r, (heal env cfg st decay maxRetries gen).res = .ok r := by
  obtain ⟨st', h, hres, _⟩ := healFrom_spec env cfg decay gen (maxRetries + 1) 0 st []
  exact ⟨_, hres⟩

/-- What `heal` returns when it does not give up: the first valid `fold_enhanced` result, obtained at some
    attempt `j ≤ max_retries` on the text the generator produced at that attempt — so its structure is a
    successfully validated value derived from that text by one of the chaperone's strategies — with only the
    confidence replaced by `min(confidence, ceiling of attempt j)`; `final_confidence` is that value; every
    earlier attempt is recorded as failed with confidence 0; the outcome is VALID_FIRST_TRY exactly when `j = 0`. -/
theorem c11_heal_result_is_a_valid_fold (env : Env J S C) (cfg : Cfg) (st st' : Stats) (decay : Rat)
    (maxRetries : Nat) (gen : Nat → Text) (h : HealOut S C)
    (hres : (heal env cfg st decay maxRetries gen).res = .ok (st', h)) (hnd : h.outcome ≠ .degraded) :
    ∃ j stj stj' r, j ≤ maxRetries ∧ (foldX env cfg stj (gen j) []).res = .ok (stj', r) ∧ r.valid = true ∧
      h.folded = some (healedFold decay j r) ∧ h.finalConfidence = ratMin r.confidence (healCeiling decay j) ∧
      h.tagged = false ∧ (h.outcome = .validFirstTry ↔ j = 0) ∧
      h.attempts = failedAtts 0 j ++ [⟨j, true, healCeiling decay j⟩] ∧
      ∃ s ∈ effective cfg [], ∃ d v, r.struct = some v ∧ env.validate d = .ok v ∧ Derived env (gen j) s d ∧
        r.raw = gen j := by
  obtain ⟨st2, h2, hres2, hcase⟩ := healFrom_spec env cfg decay gen (maxRetries + 1) 0 st []
  unfold heal at hres
  rw [hres2] at hres
  simp at hres
  obtain ⟨rfl, rfl⟩ := hres
  rcases hcase with ⟨hd, _⟩ | ⟨j, stj, stj', r, _, hj, hfold, hrv, hf, hfc, ht, ho, ha⟩
  · exact absurd hd hnd
  · obtain ⟨s, hs, d, v, hstruct, hval, hder, _, _, _⟩ :=
      c11_valid_is_validated_enhanced env cfg stj stj' (gen j) [] r hfold hrv
    have hraw := (c11_raw_is_echoed env cfg stj (gen j) []).2 stj' r hfold
    refine ⟨j, stj, stj', r, by omega, hfold, hrv, hf, hfc, ht, ?_, by simpa using ha, s, hs, d, v, hstruct, hval,
      hder, hraw⟩
    rw [ho]
    by_cases hj0 : j = 0 <;> simp [hj0]

example : ∃ st' h, (heal toyEnv (Cfg.new []) Stats.zero (1 / 2) 3 (fun k => if k < 2 then rawBad else rawProse)).res = .ok (st', h) ∧
    h.outcome = .healed ∧ h.finalConfidence = 0 ∧ h.attempts.length = 3 := ⟨_, _, rfl, rfl, by decide +kernel, rfl⟩

/-- When `heal` gives up: nothing is returned (no folded protein), `final_confidence` is 0, the result is tagged for
    degradation, and exactly `max_retries + 1` failed attempts were made. -/
theorem c11_heal_degraded_has_nothing (env : Env J S C) (cfg : Cfg) (st st' : Stats) (decay : Rat)
    (maxRetries : Nat) (gen : Nat → Text) (h : HealOut S C)
    (hres : (heal env cfg st decay maxRetries gen).res = .ok (st', h)) (hd : h.outcome = .degraded) :
    h.folded = none ∧ h.finalConfidence = 0 ∧ h.tagged = true ∧ h.attempts = failedAtts 0 (maxRetries + 1) := by
  obtain ⟨st2, h2, hres2, hcase⟩ := healFrom_spec env cfg decay gen (maxRetries + 1) 0 st []
  unfold heal at hres
  rw [hres2] at hres
  simp at hres
  obtain ⟨rfl, rfl⟩ := hres
  rcases hcase with ⟨_, h2, h3, h4, h5⟩ | ⟨j, _, _, _, _, _, _, _, _, _, _, ho, _⟩
  · exact ⟨h2, h3, h4, by simpa using h5⟩
  · rw [ho] at hd
    by_cases hj0 : j = 0 <;> simp [hj0] at hd

example : ∃ st' h, (heal toyEnv (Cfg.new []) Stats.zero (1 / 10) 2 (fun _ => rawBad)).res = .ok (st', h) ∧
    h.outcome = .degraded := ⟨_, _, rfl, rfl⟩

/-- Through the healing loop the confidence stays in [0, 1] — the final confidence and the confidence written into
    the returned folded protein — for every decay and every number of retries; it is 1 only for a fold that is valid
    through STRICT; the confidence of every attempt record is ≥ 0, and 0 for a failed attempt (≤ 1 for a non-negative
    decay: `c11_heal_attempt_records_at_most_one`). -/
theorem c11_heal_confidence_unit_and_one_only_strict (env : Env J S C) (cfg : Cfg) (st st' : Stats)
    (decay : Rat) (maxRetries : Nat) (gen : Nat → Text) (h : HealOut S C)
    (hres : (heal env cfg st decay maxRetries gen).res = .ok (st', h)) :
    0 ≤ h.finalConfidence ∧ h.finalConfidence ≤ 1 ∧
    (∀ f, h.folded = some f → f.confidence = h.finalConfidence) ∧
    (∀ a ∈ h.attempts, 0 ≤ a.confidence ∧ (a.success = false → a.confidence = 0)) ∧
    (h.finalConfidence = 1 → ∃ f, h.folded = some f ∧ f.valid = true ∧ f.strategyUsed = some .strict) := by
  obtain ⟨st2, h2, hres2, hcase⟩ := healFrom_spec env cfg decay gen (maxRetries + 1) 0 st []
  unfold heal at hres
  rw [hres2] at hres
  simp at hres
  obtain ⟨rfl, rfl⟩ := hres
  rcases hcase with ⟨_, hf, hfc, _, ha⟩ | ⟨j, stj, stj', r, _, _, hfold, hrv, hf, hfc, _, _, ha⟩
  · rw [hfc, hf, ha]
    refine ⟨by grind, by grind, by simp, ?_, by grind⟩
    intro a hmem
    simp [failedAtts] at hmem
    obtain ⟨i, _, rfl⟩ := hmem
    exact ⟨Rat.le_refl, fun _ => rfl⟩
  · obtain ⟨hc0, hc1, hone, _⟩ := c11_confidence_unit_and_one_only_strict env cfg stj stj' (gen j) [] r hfold
    have hceil := healCeiling_nonneg decay j
    have hmin0 : 0 ≤ ratMin r.confidence (healCeiling decay j) := by unfold ratMin; split <;> assumption
    have hmin1 : ratMin r.confidence (healCeiling decay j) ≤ r.confidence := by unfold ratMin; split <;> grind
    rw [hfc, hf, ha]
    refine ⟨hmin0, by grind, by simp [healedFold], ?_, ?_⟩
    · intro a hmem
      simp [failedAtts] at hmem
      rcases hmem with ⟨i, _, rfl⟩ | rfl
      · exact ⟨Rat.le_refl, fun _ => rfl⟩
      · exact ⟨hceil, by simp⟩
    · intro h1
      have hr1 : r.confidence = 1 := by grind
      obtain ⟨hv, hs⟩ := hone.mp hr1
      exact ⟨_, rfl, by simpa [healedFold] using hv, by simpa [healedFold] using hs⟩

/-- Through the healing loop too, STRICT (hence full confidence) is only ever named for text that is JSON as it stands:
    when the folded protein `heal` hands on names STRICT — or `final_confidence` is 1 — the text the generator produced
    at the successful attempt `j`, white space around it aside, is what `json.loads` read, and the structure is
    `model_validate` of exactly that value. -/
theorem c11_heal_names_strict_only_for_text_that_is_json (env : Env J S C) (cfg : Cfg) (st st' : Stats)
    (decay : Rat) (maxRetries : Nat) (gen : Nat → Text) (h : HealOut S C)
    (hres : (heal env cfg st decay maxRetries gen).res = .ok (st', h))
    (hs : h.finalConfidence = 1 ∨ ∃ f, h.folded = some f ∧ f.strategyUsed = some .strict) :
    ∃ f j, h.folded = some f ∧ j ≤ maxRetries ∧ f.raw = gen j ∧ f.valid = true ∧ f.strategyUsed = some .strict ∧
      .strict ∈ effective cfg [] ∧
      ∃ d v, env.loads (strip (gen j)) = .ok d ∧ env.validate d = .ok v ∧ f.struct = some v := by
  have hstrict : ∃ f, h.folded = some f ∧ f.strategyUsed = some .strict := by
    rcases hs with hs | hs
    · obtain ⟨f, hf, _, hu⟩ :=
        (c11_heal_confidence_unit_and_one_only_strict env cfg st st' decay maxRetries gen h hres).2.2.2.2 hs
      exact ⟨f, hf, hu⟩
    · exact hs
  obtain ⟨f, hf, hu⟩ := hstrict
  have hnd : h.outcome ≠ .degraded := by
    intro hd
    have := (c11_heal_degraded_has_nothing env cfg st st' decay maxRetries gen h hres hd).1
    rw [this] at hf; cases hf
  obtain ⟨j, stj, stj', r, hj, hfold, hrv, hfolded, _, _, _, _, _⟩ :=
    c11_heal_result_is_a_valid_fold env cfg st st' decay maxRetries gen h hres hnd
  rw [hfolded] at hf
  cases hf
  have hu' : r.strategyUsed = some .strict := hu
  obtain ⟨hmem, _, _, _, d, v, hl, hval, hstr⟩ :=
    c11_full_confidence_means_the_text_itself_is_json env cfg stj stj' (gen j) [] r hfold (Or.inr hu')
  have hraw := (c11_raw_is_echoed env cfg stj (gen j) []).2 stj' r hfold
  exact ⟨healedFold decay j r, j, hfolded, hj, hraw, hrv, hu, hmem, d, v, hl, hval, hstr⟩

example : ∃ st' h f, (heal toyEnv (Cfg.new []) Stats.zero (1 / 10) 3 (fun k => if k < 1 then rawBad else rawClean)).res = .ok (st', h) ∧
    h.folded = some f ∧ f.strategyUsed = some .strict ∧ toyEnv.loads (strip rawClean) = .ok 1 := ⟨_, _, _, rfl, rfl, rfl, rfl⟩

/-! ## The coercion helper cannot make values up -/

/-- non-vacuity: the JSON object `5` = `{k0: v10}` where `v10` is the string "4"; field `k0` is annotated `int`;
    `int(v10)` is `v11`; the dict `{k0: v11}` is the JSON value `6`, which validates to structure `7`, while `5`
    itself does not validate. -/
def toyC : CEnv Nat Nat Nat where
  isList _ := false
  toDict j := if j = 5 then .ok [(0, 10)] else .raise (.other 2)
  ofDict l := if l = [(0, 11)] then 6 else 0
  fields := [(0, .int)]
  isStr v := v == 10
  isNum _ := false
  intOf v := if v = 10 then some 11 else none
  floatOf _ := none
  strOf v := v
  boolOf _ := none
  splitOf v := v

def toyEnvL : Env Nat Nat (Nat × Conv) where
  loads t := if t = [123, 125] then .ok 5 else .raise .jsonDecode
  isNone _ := false
  findall _ _ := .ok []
  sub _ t := .ok t
  validate d := if d = 6 then .ok 7 else .raise .validation
  coerce := coerceModel toyC
  patterns := patternIds
  repairs := repairIds


/-- `_coerce_types_tracked`, for every behaviour of the Python primitives it uses (`isinstance`, `dict()`,
    `int()`, `float()`, `str()`, the bool literal sets, `split`), every schema and every parsed value: a list is
    returned untouched; a scalar makes `dict()` raise (which the cascade catches); for a dict the result has the same
    keys in the same order, every value is the old value of that key or a conversion of it by an entry of the
    coercion table that the schema's annotation for that key selects, and every label in `coercions_applied` names
    a conversion that was applied (at most one per schema field). -/
theorem c11_coercion_is_conservative {K V : Type} [DecidableEq K] (c : CEnv J K V) (j : J) :
    (c.isList j = true ∧ coerceModel c j = .ok (j, [])) ∨
    (c.isList j = false ∧ ∃ e, c.toDict j = .raise e ∧ coerceModel c j = .raise e) ∨
    (c.isList j = false ∧ ∃ d out ls, c.toDict j = .ok d ∧ coerceModel c j = .ok (c.ofDict out, ls) ∧
      out.map (·.1) = d.map (·.1) ∧ (∀ e ∈ out, ∃ v, (e.1, v) ∈ d ∧ FromConv c e.1 v e.2) ∧
      ls.length ≤ c.fields.length ∧ ∀ l ∈ ls, LabelOk c l) :=
  coerceModel_spec c j

/-- With distinct field names (as in every pydantic schema, whose `model_fields` is a dict) a value is converted
    at most once: every value of the coerced dict is the old value of its key, or exactly one table conversion of
    it, selected by that key's annotation. -/
theorem c11_coercion_converts_at_most_once {K V : Type} [DecidableEq K] (c : CEnv J K V) (j : J)
    (d : List (K × V)) (hd : c.toDict j = .ok d) (hl : c.isList j = false)
    (hnd : (c.fields.map (·.1)).Nodup) :
    ∃ out ls, coerceModel c j = .ok (c.ofDict out, ls) ∧
      ∀ e ∈ out, ∃ v, (e.1, v) ∈ d ∧ (e.2 = v ∨ ∃ a cv, (e.1, a) ∈ c.fields ∧ convert c a v = some (e.2, cv)) := by
  refine ⟨(coerceFields c c.fields d []).1, (coerceFields c c.fields d []).2, by simp [coerceModel, hl, hd], ?_⟩
  exact coerceFields_once c c.fields d [] hnd

example : toyC.toDict 5 = .ok [(0, 10)] ∧ toyC.isList 5 = false ∧ (toyC.fields.map (·.1)).Nodup ∧
    coerceModel toyC 5 = .ok (6, [(0, .strToInt)]) := by decide

/-- Put together for the LENIENT strategy: when the environment's coercion helper is the modelled one, a fold
    that is valid through LENIENT validated a value `d` that is either a JSON list present in the raw text, taken
    as it is, or a dict with exactly the keys of a JSON object `e` present in the raw text (the whole stripped text
    or an extraction match) whose every value is `e`'s value for that key or a table conversion of it. -/
theorem c11_lenient_values_come_from_the_text {K V : Type} [DecidableEq K] (env : Env J S (K × Conv))
    (c : CEnv J K V) (hco : env.coerce = coerceModel c) (cfg : Cfg) (st st' : Stats) (raw : Text)
    (call : List Strategy) (r : FoldedX S (K × Conv))
    (h : (foldX env cfg st raw call).res = .ok (st', r)) (hv : r.valid = true)
    (hs : r.strategyUsed = some .lenient) :
    ∃ e d v, Present env raw e ∧ env.isNone e = false ∧ r.struct = some v ∧ env.validate d = .ok v ∧
      ((c.isList e = true ∧ d = e) ∨
       (∃ items out, c.toDict e = .ok items ∧ d = c.ofDict out ∧ out.map (·.1) = items.map (·.1) ∧
          ∀ x ∈ out, ∃ w, (x.1, w) ∈ items ∧ FromConv c x.1 w x.2)) := by
  obtain ⟨s, _, d, v, hstruct, hval, hder, hused, _, _⟩ :=
    c11_valid_is_validated_enhanced env cfg st st' raw call r h hv
  rw [hs] at hused
  cases hused
  obtain ⟨e, cs, hpres, hnone, hcoerce⟩ := hder
  rw [hco] at hcoerce
  refine ⟨e, d, v, hpres, hnone, hstruct, hval, ?_⟩
  rcases coerceModel_spec c e with ⟨hl, heq⟩ | ⟨_, ex, _, heq⟩ | ⟨_, items, out, ls, hd, heq, hkeys, hvals, _, _⟩
  · rw [heq] at hcoerce
    cases hcoerce
    exact Or.inl ⟨hl, rfl⟩
  · rw [heq] at hcoerce; cases hcoerce
  · rw [heq] at hcoerce
    cases hcoerce
    exact Or.inr ⟨items, out, hd, rfl, hkeys, hvals⟩

example : toyEnvL.coerce = coerceModel toyC ∧
    ∃ st' r, (foldX toyEnvL (Cfg.new []) Stats.zero rawClean []).res = .ok (st', r) ∧ r.valid = true ∧
      r.strategyUsed = some .lenient ∧ r.struct = some 7 ∧ r.coercions = [.coerced (0, .strToInt)] :=
  ⟨rfl, _, _, rfl, rfl, rfl, rfl, rfl⟩

/-! ## User callbacks: co-chaperone preprocessors and `on_misfold`

`Hooks.pre` is the co-chaperone registered for the target schema (if any), `Hooks.onMisfold` the instance's
`on_misfold` when it is truthy; both are arbitrary functions that return or raise any exception class.
`hk.Feeds raw t` (Lemmas): `t` is the text the strategies work on — `raw` itself without a co-chaperone, else what
the co-chaperone returned for `raw`. -/

/-- toy co-chaperone: deletes every `x`, refuses the text `?`; toy `on_misfold` callbacks that return / raise -/
def toyPre : Text → Res Text := fun t => if t = [63] then .raise (.other 5) else .ok (t.filter (· != 120))
def toyHooks : Hooks Nat Nat := ⟨some toyPre, some fun _ => .ok ()⟩
def toyHooksRaising : Hooks Nat Nat := ⟨none, some fun _ => .raise (.other 6)⟩

/-- A Chaperone without a co-chaperone for the schema and without a (truthy) `on_misfold` behaves exactly as the
    model of the earlier sections: same report, same counters, same library calls, no callback invoked — so every
    theorem above is a theorem about `fold` / `fold_enhanced` of such an instance. -/
theorem c11_without_callbacks_nothing_changes (env : Env J S C) (cfg : Cfg) (st : Stats) (raw : Text)
    (call : List Strategy) :
    (∃ st' p, (fold env cfg st raw call).res = .ok (st', p) ∧
      foldH env Hooks.absent cfg st raw call = ⟨st', [], (fold env cfg st raw call).trace, .ok p⟩) ∧
    (∃ st' x, (foldX env cfg st raw call).res = .ok (st', x) ∧
      foldXH env Hooks.absent cfg st raw call = ⟨st', [], (foldX env cfg st raw call).trace, .ok x⟩) := by
  obtain ⟨tr, st', p, x, hp, hx, _, h1, h2, h3, h4, hcase⟩ :=
    foldHBoth_spec env Hooks.absent cfg st raw raw call (Or.inl ⟨rfl, rfl⟩)
  have hpr := (c11_raw_is_echoed env cfg st raw call).1 st' p (by rw [hp])
  have hxr := (c11_raw_is_echoed env cfg st raw call).2 st' x (by rw [hx])
  have hpe : p.echo raw = p := by cases p; simp [Folded.echo] at hpr ⊢; exact hpr.symm
  have hxe : x.echo raw = x := by cases x; simp [FoldedX.echo] at hxr ⊢; exact hxr.symm
  have hres : (foldH env Hooks.absent cfg st raw call).hooks = [] ∧
      (foldXH env Hooks.absent cfg st raw call).hooks = [] ∧
      (foldH env Hooks.absent cfg st raw call).res = .ok p ∧ (foldXH env Hooks.absent cfg st raw call).res = .ok x := by
    rcases hcase with ⟨_, a, b, c, d⟩ | ⟨_, _, ⟨_, a, b, c, d⟩ | ⟨g, hg, _⟩⟩
    · rw [hpe] at c; rw [hxe] at d; exact ⟨a, b, c, d⟩
    · rw [hpe] at c; rw [hxe] at d; exact ⟨a, b, c, d⟩
    · cases hg
  obtain ⟨a, b, c, d⟩ := hres
  constructor
  · refine ⟨st', p, by rw [hp], ?_⟩
    rw [hp]
    cases hf : foldH env Hooks.absent cfg st raw call
    rw [hf] at h1 h3 a c; simp at h1 h3 a c; subst h1 h3 a c; rfl
  · refine ⟨st', x, by rw [hx], ?_⟩
    rw [hx]
    cases hf : foldXH env Hooks.absent cfg st raw call
    rw [hf] at h2 h4 b d; simp at h2 h4 b d; subst h2 h4 b d; rfl

/-- With a co-chaperone registered for the schema, `fold` / `fold_enhanced` of `raw` are `fold` / `fold_enhanced`
    of the preprocessed text `t`: the same library calls, the same counters, and — when no callback raises — the
    same report in every field except `raw_peptide_chain`, which echoes the text the caller passed. -/
theorem c11_cochaperone_folds_the_preprocessed_text (env : Env J S C) (hk : Hooks S C) (cfg : Cfg) (st : Stats)
    (raw t : Text) (call : List Strategy) (hfeeds : hk.Feeds raw t) :
    ∃ st' p x, (fold env cfg st t call).res = .ok (st', p) ∧ (foldX env cfg st t call).res = .ok (st', x) ∧
      (foldH env hk cfg st raw call).stats = st' ∧ (foldXH env hk cfg st raw call).stats = st' ∧
      (foldH env hk cfg st raw call).trace = (fold env cfg st t call).trace ∧
      (foldXH env hk cfg st raw call).trace = (foldX env cfg st t call).trace ∧
      (∀ q, (foldH env hk cfg st raw call).res = .ok q → q = ⟨p.valid, p.struct, raw, p.err⟩) ∧
      (∀ q, (foldXH env hk cfg st raw call).res = .ok q →
        q = ⟨x.valid, x.struct, raw, x.err, x.attempts, x.confidence, x.coercions, x.strategyUsed⟩) := by
  obtain ⟨tr, st', p, x, hp, hx, _, h1, h2, h3, h4, hcase⟩ := foldHBoth_spec env hk cfg st raw t call hfeeds
  refine ⟨st', p, x, by rw [hp], by rw [hx], h1, h2, by rw [h3, hp], by rw [h4, hx], ?_, ?_⟩
  · intro q hq
    rcases hcase with ⟨_, _, _, c, _⟩ | ⟨_, _, ⟨_, _, _, c, _⟩ | ⟨g, _, _, _, c, _⟩⟩
    · rw [c] at hq; cases hq; rfl
    · rw [c] at hq; cases hq; rfl
    · rw [c] at hq; split at hq
      · cases hq; rfl
      · cases hq
  · intro q hq
    rcases hcase with ⟨_, _, _, _, d⟩ | ⟨_, _, ⟨_, _, _, _, d⟩ | ⟨g, _, _, _, _, d⟩⟩
    · rw [d] at hq; cases hq; rfl
    · rw [d] at hq; cases hq; rfl
    · rw [d] at hq; split at hq
      · cases hq; rfl
      · cases hq

example : toyHooks.Feeds rawProse [123, 125] ∧
    (foldXH toyEnv toyHooks (Cfg.new []) Stats.zero rawProse []).hooks.length = 1 ∧
    ∃ q, (foldXH toyEnv toyHooks (Cfg.new []) Stats.zero rawProse []).res = .ok q ∧ q.valid = true ∧
      q.strategyUsed = some .strict ∧ q.raw = rawProse ∧ q.struct = some 7 :=
  ⟨Or.inr ⟨toyPre, rfl, rfl⟩, rfl, _, rfl, rfl, rfl, rfl, rfl⟩

/-- 'valid' with callbacks: a report that `fold` / `fold_enhanced` hand out as valid carries the result of a
    successful `model_validate d`, with `d` derived by one of the requested strategies from the text the strategies
    worked on (the caller's text, or what the caller's own co-chaperone made of it); no error trace; the caller's raw
    text is echoed. -/
theorem c11_valid_is_validated_with_callbacks (env : Env J S C) (hk : Hooks S C) (cfg : Cfg) (st : Stats)
    (raw t : Text) (call : List Strategy) (hfeeds : hk.Feeds raw t) :
    (∀ q, (foldXH env hk cfg st raw call).res = .ok q → q.valid = true →
      ∃ s ∈ effective cfg call, ∃ d v, q.struct = some v ∧ env.validate d = .ok v ∧ Derived env t s d ∧
        q.strategyUsed = some s ∧ q.err = none ∧ q.raw = raw) ∧
    (∀ q, (foldH env hk cfg st raw call).res = .ok q → q.valid = true →
      ∃ s ∈ effective cfg call, ∃ d v, q.struct = some v ∧ env.validate d = .ok v ∧ Derived env t s d ∧
        q.err = none ∧ q.raw = raw) := by
  obtain ⟨st', p, x, hp, hx, _, _, _, _, hq1, hq2⟩ :=
    c11_cochaperone_folds_the_preprocessed_text env hk cfg st raw t call hfeeds
  constructor
  · intro q hq hv
    have := hq2 q hq
    subst this
    obtain ⟨s, hs, d, v, a, b, c, e, f, _⟩ := c11_valid_is_validated_enhanced env cfg st st' t call x hx hv
    exact ⟨s, hs, d, v, a, b, c, e, f, rfl⟩
  · intro q hq hv
    have := hq1 q hq
    subst this
    obtain ⟨s, hs, d, v, a, b, c, e, _⟩ := c11_valid_is_validated env cfg st st' t call p hp hv
    exact ⟨s, hs, d, v, a, b, c, e, rfl⟩

/-- `on_misfold` (when set and truthy) is invoked exactly when the co-chaperone returned and every requested strategy
    failed on the text it fed: never for a valid fold; for an invalid one exactly once, as the last callback, after all
    library calls.  The report it is given is invalid, has no structure, the "All n folding strategies failed" trace,
    confidence 0, no strategy, one failed attempt per requested strategy in order, and echoes the caller's raw text;
    `fold` and `fold_enhanced` hand it the same report, and `fold_enhanced` returns that very report. -/
theorem c11_on_misfold_gets_exactly_the_invalid_report (env : Env J S C) (hk : Hooks S C) (cfg : Cfg) (st : Stats)
    (raw t : Text) (call : List Strategy) (hfeeds : hk.Feeds raw t) (g : FoldedX S C → Res Unit)
    (hg : hk.onMisfold = some g) :
    ∃ st' x, (foldX env cfg st t call).res = .ok (st', x) ∧
      (x.valid = true →
        (foldH env hk cfg st raw call).hooks = preHooks hk raw t ∧
        (foldXH env hk cfg st raw call).hooks = preHooks hk raw t) ∧
      (x.valid = false → ∃ rep : FoldedX S C,
        (foldH env hk cfg st raw call).hooks = preHooks hk raw t ++ [.misfold rep (g rep)] ∧
        (foldXH env hk cfg st raw call).hooks = preHooks hk raw t ++ [.misfold rep (g rep)] ∧
        rep.valid = false ∧ rep.struct = none ∧ rep.err = some (.allFailed (effective cfg call).length) ∧
        rep.confidence = 0 ∧ rep.strategyUsed = none ∧ rep.raw = raw ∧
        rep.attempts.map (·.strategy) = effective cfg call ∧ (∀ a ∈ rep.attempts, a.success = false) ∧
        (∀ q, (foldXH env hk cfg st raw call).res = .ok q → q = rep)) := by
  obtain ⟨tr, st', p, x, hp, hx, _, _, _, _, _, hcase⟩ := foldHBoth_spec env hk cfg st raw t call hfeeds
  refine ⟨st', x, by rw [hx], ?_, ?_⟩
  · intro hv
    rcases hcase with ⟨_, a, b, _, _⟩ | ⟨hv', _⟩
    · exact ⟨a, b⟩
    · rw [hv] at hv'; cases hv'
  · intro hv
    rcases hcase with ⟨hv', _⟩ | ⟨_, hshape, ⟨hn, _⟩ | ⟨g', hg', a, b, _, d⟩⟩
    · rw [hv] at hv'; cases hv'
    · rw [hg] at hn; cases hn
    · rw [hg] at hg'; cases hg'
      refine ⟨x.echo raw, a, b, ?_, ?_, ?_, ?_, ?_, rfl, ?_, ?_, ?_⟩
      · exact hv
      · rw [hshape]; rfl
      · rw [hshape]; rfl
      · rw [hshape]; rfl
      · rw [hshape]; rfl
      · rw [hshape]; simp [FoldedX.echo, misfoldReport, failRec, Function.comp_def]
      · rw [hshape]; intro a ha; simp [FoldedX.echo, misfoldReport, failRec] at ha; obtain ⟨s, _, rfl⟩ := ha; rfl
      · intro q hq
        rw [d] at hq
        split at hq
        · cases hq; rfl
        · cases hq

example : ∃ rep, (foldH toyEnv toyHooks (Cfg.new []) Stats.zero rawBad [.strict, .repair]).hooks =
      [.pre rawBad (.ok rawBad), .misfold rep (.ok ())] ∧ rep.attempts.length = 2 ∧ rep.raw = rawBad :=
  ⟨_, rfl, rfl, rfl⟩

/-- "No raw text makes folding raise", with callbacks: an exception leaves `fold` / `fold_enhanced` only when a user
    callback raised it — the co-chaperone on the raw text, or `on_misfold` on the report of an invalid fold — and it is
    that exception.  With callbacks that return, both methods return a report for every raw text and every library
    behaviour. -/
theorem c11_only_a_user_callback_makes_folding_raise (env : Env J S C) (hk : Hooks S C) (cfg : Cfg) (st : Stats)
    (raw : Text) (call : List Strategy) :
    (∀ e, (foldH env hk cfg st raw call).res = .raise e →
      (∃ f, hk.pre = some f ∧ f raw = .raise e) ∨
      (∃ g rep, hk.onMisfold = some g ∧ g rep = .raise e ∧
        (foldH env hk cfg st raw call).hooks.getLast? = some (.misfold rep (.raise e)))) ∧
    (∀ e, (foldXH env hk cfg st raw call).res = .raise e →
      (∃ f, hk.pre = some f ∧ f raw = .raise e) ∨
      (∃ g rep, hk.onMisfold = some g ∧ g rep = .raise e ∧
        (foldXH env hk cfg st raw call).hooks.getLast? = some (.misfold rep (.raise e)))) ∧
    ((∀ f, hk.pre = some f → ∃ t, f raw = .ok t) → (∀ g rep, hk.onMisfold = some g → g rep = .ok ()) →
      (∃ p, (foldH env hk cfg st raw call).res = .ok p) ∧ (∃ x, (foldXH env hk cfg st raw call).res = .ok x)) := by
  rcases foldH_cases env hk cfg st raw call with ⟨f, e, hp, hr, hH, hXH⟩ | ⟨t, hfeeds, _, _⟩
  · refine ⟨?_, ?_, ?_⟩
    · intro e' he'; rw [hH] at he'; cases he'; exact Or.inl ⟨f, hp, hr⟩
    · intro e' he'; rw [hXH] at he'; cases he'; exact Or.inl ⟨f, hp, hr⟩
    · intro hok _
      obtain ⟨t, ht⟩ := hok f hp
      rw [hr] at ht; cases ht
  · obtain ⟨tr, st', p, x, _, _, _, _, _, _, _, hcase⟩ := foldHBoth_spec env hk cfg st raw t call hfeeds
    rcases hcase with ⟨_, _, _, c, d⟩ | ⟨_, _, ⟨_, _, _, c, d⟩ | ⟨g, hg, a, b, c, d⟩⟩
    · exact ⟨fun e he => (by rw [c] at he; cases he), fun e he => (by rw [d] at he; cases he), fun _ _ => ⟨⟨_, c⟩, ⟨_, d⟩⟩⟩
    · exact ⟨fun e he => (by rw [c] at he; cases he), fun e he => (by rw [d] at he; cases he), fun _ _ => ⟨⟨_, c⟩, ⟨_, d⟩⟩⟩
    · cases hgr : g (x.echo raw) with
      | ok u =>
        rw [hgr] at c d
        exact ⟨fun e he => (by rw [c] at he; cases he), fun e he => (by rw [d] at he; cases he),
          fun _ _ => ⟨⟨_, c⟩, ⟨_, d⟩⟩⟩
      | raise e0 =>
        rw [hgr] at a b c d
        refine ⟨?_, ?_, ?_⟩
        · intro e he; rw [c] at he; cases he
          exact Or.inr ⟨g, x.echo raw, hg, hgr, by rw [a]; simp⟩
        · intro e he; rw [d] at he; cases he
          exact Or.inr ⟨g, x.echo raw, hg, hgr, by rw [b]; simp⟩
        · intro _ hok
          have := hok g (x.echo raw) hg
          rw [hgr] at this; cases this

example : (foldXH toyEnv toyHooksRaising (Cfg.new []) Stats.zero rawBad []).res = .raise (.other 6) ∧
    (foldH toyEnv toyHooks (Cfg.new []) Stats.zero [63] []).res = .raise (.other 5) ∧
    (foldH toyEnv toyHooks (Cfg.new []) Stats.zero [63] []).stats.total = 1 := ⟨rfl, rfl, rfl⟩

/-- Statistics with callbacks: every call of `fold` / `fold_enhanced` counts as one fold, also when a callback raises
    (the counter is incremented before the co-chaperone runs); the counters stay consistent (`successful_folds` is the
    sum of the per-strategy successes, no strategy succeeded more often than it was attempted, successes ≤ folds);
    and both methods leave the same counters. -/
theorem c11_stats_with_callbacks (env : Env J S C) (hk : Hooks S C) (cfg : Cfg) (st : Stats)
    (raw : Text) (call : List Strategy) :
    (foldH env hk cfg st raw call).stats.total = st.total + 1 ∧
    (foldXH env hk cfg st raw call).stats = (foldH env hk cfg st raw call).stats ∧
    (st.Consistent → (foldH env hk cfg st raw call).stats.Consistent) := by
  rcases foldH_cases env hk cfg st raw call with ⟨f, e, hp, hr, hH, hXH⟩ | ⟨t, hfeeds, _, _⟩
  · rw [hH, hXH]
    refine ⟨rfl, rfl, ?_⟩
    intro ⟨h1, h2, h3⟩
    exact ⟨h1, h2, by simp; omega⟩
  · obtain ⟨tr, st', p, x, _, hx, _, h1, h2, _, _, _⟩ := foldHBoth_spec env hk cfg st raw t call hfeeds
    rw [h1, h2]
    have hstep := c11_stats_step env cfg st st' t call x (by rw [hx])
    refine ⟨hstep.1, rfl, ?_⟩
    intro hc
    have := runOp_consistent env cfg st (.foldX t call) hc
    simpa [runOp, statsOf, hx] using this

/-- The plain and enhanced folds agree, with callbacks: on the same instance, raw text and strategies they invoke
    the same callbacks with the same arguments in the same order, make the same library calls, leave the same
    counters, raise the same exception if one of them raises, and otherwise agree on validity, structure and the
    echoed raw text. -/
theorem c11_plain_and_enhanced_agree_with_callbacks (env : Env J S C) (hk : Hooks S C) (cfg : Cfg) (st : Stats)
    (raw : Text) (call : List Strategy) :
    (foldH env hk cfg st raw call).hooks = (foldXH env hk cfg st raw call).hooks ∧
    (foldH env hk cfg st raw call).trace = (foldXH env hk cfg st raw call).trace ∧
    (foldH env hk cfg st raw call).stats = (foldXH env hk cfg st raw call).stats ∧
    ((∃ e, (foldH env hk cfg st raw call).res = .raise e ∧ (foldXH env hk cfg st raw call).res = .raise e) ∨
     (∃ p x, (foldH env hk cfg st raw call).res = .ok p ∧ (foldXH env hk cfg st raw call).res = .ok x ∧
        p.valid = x.valid ∧ p.struct = x.struct ∧ p.raw = raw ∧ x.raw = raw)) := by
  rcases foldH_cases env hk cfg st raw call with ⟨f, e, hp, hr, hH, hXH⟩ | ⟨t, hfeeds, _, _⟩
  · rw [hH, hXH]; exact ⟨rfl, rfl, rfl, Or.inl ⟨e, rfl, rfl⟩⟩
  · obtain ⟨tr, st', p, x, hp, hx, hpv, h1, h2, h3, h4, hcase⟩ := foldHBoth_spec env hk cfg st raw t call hfeeds
    obtain ⟨_, st2, p2, x2, e1, e2, _, hss, _⟩ := c11_plain_and_enhanced_agree env cfg st t call
    have hps : p.struct = x.struct := by
      rw [hp] at e1; rw [hx] at e2; simp at e1 e2
      obtain ⟨_, rfl⟩ := e1; obtain ⟨_, rfl⟩ := e2; exact hss
    rw [h1, h2, h3, h4]
    rcases hcase with ⟨_, a, b, c, d⟩ | ⟨_, _, ⟨_, a, b, c, d⟩ | ⟨g, hg, a, b, c, d⟩⟩
    · exact ⟨by rw [a, b], rfl, rfl, Or.inr ⟨_, _, c, d, hpv, hps, rfl, rfl⟩⟩
    · exact ⟨by rw [a, b], rfl, rfl, Or.inr ⟨_, _, c, d, hpv, hps, rfl, rfl⟩⟩
    · refine ⟨by rw [a, b], rfl, rfl, ?_⟩
      cases hgr : g (x.echo raw) with
      | ok u => rw [hgr] at c d; exact Or.inr ⟨_, _, c, d, hpv, hps, rfl, rfl⟩
      | raise e => rw [hgr] at c d; exact Or.inl ⟨e, c, d⟩

/-! ## Audit follow-up: counters, strategy orders, histories -/

/-- The verdict does not depend on the counters: `fold` and `fold_enhanced` called one after the other on one
    Chaperone (the second call starts from the counters the first one left), or on two different instances whose
    strategy lists in force are equal, make the same library calls and agree on validity, structure and echoed raw
    text; and `fold_enhanced` returns the same report from any counter state. -/
theorem c11_verdict_does_not_depend_on_the_counters (env : Env J S C) (cfg cfg' : Cfg) (st st' : Stats) (raw : Text)
    (call call' : List Strategy) (heff : effective cfg call = effective cfg' call') :
    (fold env cfg st raw call).trace = (foldX env cfg' st' raw call').trace ∧
    (foldX env cfg st raw call).trace = (foldX env cfg' st' raw call').trace ∧
    ∃ s1 s2 s3 p x, (fold env cfg st raw call).res = .ok (s1, p) ∧ (foldX env cfg' st' raw call').res = .ok (s2, x) ∧
      (foldX env cfg st raw call).res = .ok (s3, x) ∧ p.valid = x.valid ∧ p.struct = x.struct ∧ p.raw = x.raw := by
  obtain ⟨htr, st1, p, x1, hp, hx1, hv, hs, hr⟩ := c11_plain_and_enhanced_agree env cfg st raw call
  obtain ⟨k1, k2⟩ := foldX_counters_irrelevant env cfg cfg' st st' raw call call' heff
  obtain ⟨r2, hr2⟩ := (c11_total env cfg' st' raw call').2
  rw [hx1, hr2] at k2
  simp at k2
  obtain ⟨s2, x2⟩ := r2
  simp at k2
  subst k2
  exact ⟨by rw [htr, k1], k1, st1, s2, st1, p, x1, hp, hr2, hx1, hv, hs, hr⟩

example : (fold toyEnv (Cfg.new []) Stats.zero rawProse []).trace =
    (foldX toyEnv (Cfg.new [.strict, .extraction]) ⟨5, 2, fun _ => 1, fun _ => 3⟩ rawProse [.strict, .extraction, .lenient, .repair]).trace :=
  (c11_verdict_does_not_depend_on_the_counters toyEnv _ _ _ _ _ _ _ rfl).1

/-- Clean JSON for every strategy order: if the raw text is schema-valid JSON and every strategy requested BEFORE
    STRICT fails on it, the result is the strict one — valid, exactly the structure `model_validate(json.loads(raw))`
    gives, confidence 1, strategy STRICT, no coercions.  (When an earlier strategy succeeds the fold is still valid —
    `c11_clean_json_is_accepted` — but the structure is that strategy's: `[EXTRACTION, STRICT]` on `{"a": {"b": 1}}`
    lets the bare-object pattern pick the inner object; see notes.) -/
theorem c11_strict_decides_when_earlier_strategies_fail (env : Env J S C) (cfg : Cfg) (st : Stats) (raw : Text)
    (call pre post : List Strategy) (d : J) (v : S)
    (hl : env.loads (strip raw) = .ok d) (hval : env.validate d = .ok v)
    (heff : effective cfg call = pre ++ .strict :: post)
    (hfail : ∀ s ∈ pre, Fails (attemptX env raw) (·.valid) s) :
    (∀ st' r, (foldX env cfg st raw call).res = .ok (st', r) →
      r.valid = true ∧ r.struct = some v ∧ r.confidence = 1 ∧ r.strategyUsed = some .strict ∧ r.coercions = []) ∧
    (∀ st' p, (fold env cfg st raw call).res = .ok (st', p) → p.valid = true ∧ p.struct = some v) := by
  have hclean := foldStrictX_clean env raw d v hl hval
  have hnf : ¬ Fails (attemptX env raw) (·.valid) .strict := by
    intro hf
    have := hf ⟨true, some v, none, 1, [], some .strict⟩ (by simp [attemptX, hclean])
    simp at this
  rcases foldBoth_spec env cfg st raw call with ⟨tr, hf, _, _⟩ | ⟨tpre, pre', s', post', x, hstrs, hf, hr, hxv, hx, hp⟩
  · exact absurd (hf .strict (by rw [heff]; simp)) hnf
  · have hns : ¬ Fails (attemptX env raw) (·.valid) s' := by
      intro h; have := h x hr; simp [hxv] at this
    rw [heff] at hstrs
    obtain ⟨_, hs⟩ := first_success_unique pre pre' .strict s' post post' hstrs hfail hnf hf hns
    subst hs
    have hxe : x = ⟨true, some v, none, 1, [], some .strict⟩ := by
      simp [attemptX, hclean] at hr; exact hr.symm
    subst hxe
    constructor
    · intro st' r h; rw [hx] at h; simp at h; obtain ⟨_, rfl⟩ := h; exact ⟨rfl, rfl, rfl, rfl, rfl⟩
    · intro st' p h; rw [hp] at h; simp at h; obtain ⟨_, rfl⟩ := h; exact ⟨rfl, rfl⟩

example : effective (Cfg.new [.repair, .strict]) [] = [.repair] ++ .strict :: [] ∧
    toyEnv.loads (strip rawClean) = .ok 1 ∧ toyEnv.validate 1 = .ok 7 := ⟨rfl, rfl, rfl⟩

/-- Statistics over any history on one Chaperone — `fold`, `fold_enhanced` (hence also the healing loop, which is a
    sequence of `fold_enhanced` calls) and `reset_statistics`, with the strategy list, the tables, the schema and the
    registered callbacks changing arbitrarily between the calls, callbacks that raise included: the counters stay
    consistent (`successful_folds` = sum of the per-strategy successes, successes ≤ attempts per strategy,
    `successful_folds ≤ total_folds`). -/
theorem c11_stats_consistent_any_history (ops : List (HistOp J S C)) : (runHist ops).Consistent := by
  unfold runHist
  have key : ∀ (ops : List (HistOp J S C)) (st : Stats), st.Consistent → (ops.foldl runHistOp st).Consistent := by
    intro ops
    induction ops with
    | nil => intro st h; exact h
    | cons op ops ih =>
      intro st h
      apply ih
      cases op with
      | reset => exact ⟨rfl, fun _ => Nat.le_refl _, Nat.le_refl _⟩
      | fold env hk cfg raw call => exact (c11_stats_with_callbacks env hk cfg st raw call).2.2 h
      | foldX env hk cfg raw call =>
        obtain ⟨_, h2, h3⟩ := c11_stats_with_callbacks env hk cfg st raw call
        simp only [runHistOp]; rw [h2]; exact h3 h
  exact key ops Stats.zero ⟨rfl, fun _ => Nat.le_refl _, Nat.le_refl _⟩

example : (runHist [.foldX toyEnv toyHooks (Cfg.new []) rawProse [], .fold toyEnv toyHooksRaising (Cfg.new [.repair]) rawBad [],
    .fold toyEnv toyHooks (Cfg.new []) [63] []]).total = 3 := rfl

/-- The healing loop's attempt records: with a non-negative `confidence_decay` their confidence is at most 1 (it is the
    ceiling `max(0, 1 - k·decay)`); with a negative decay the ceiling of a late successful attempt exceeds 1 (the
    example below) — `confidence_decay` is not among the property's configurations, and the confidence of the returned
    fold and `final_confidence` stay in [0,1] for every decay (`c11_heal_confidence_unit_and_one_only_strict`). -/
theorem c11_heal_attempt_records_at_most_one (env : Env J S C) (cfg : Cfg) (st st' : Stats)
    (decay : Rat) (hd : 0 ≤ decay) (maxRetries : Nat) (gen : Nat → Text) (h : HealOut S C)
    (hres : (heal env cfg st decay maxRetries gen).res = .ok (st', h)) :
    ∀ a ∈ h.attempts, 0 ≤ a.confidence ∧ a.confidence ≤ 1 := by
  have hceil : ∀ k : Nat, healCeiling decay k ≤ 1 := by
    intro k
    have hk : (0 : Rat) ≤ (k : Rat) := by exact_mod_cast Nat.zero_le k
    have : 0 ≤ (k : Rat) * decay := Rat.mul_nonneg hk hd
    unfold healCeiling ratMax
    split <;> grind
  obtain ⟨st2, h2, hres2, hcase⟩ := healFrom_spec env cfg decay gen (maxRetries + 1) 0 st []
  unfold heal at hres
  rw [hres2] at hres
  simp at hres
  obtain ⟨rfl, rfl⟩ := hres
  rcases hcase with ⟨_, _, _, _, ha⟩ | ⟨j, _, _, _, _, _, _, _, _, _, _, _, ha⟩
  · rw [ha]; intro a hmem
    simp [failedAtts] at hmem
    obtain ⟨i, _, rfl⟩ := hmem
    exact ⟨Rat.le_refl, show (0 : Rat) ≤ 1 by decide⟩
  · rw [ha]; intro a hmem
    simp [failedAtts] at hmem
    rcases hmem with ⟨i, _, rfl⟩ | rfl
    · exact ⟨Rat.le_refl, show (0 : Rat) ≤ 1 by decide⟩
    · exact ⟨healCeiling_nonneg decay j, hceil j⟩

example : ∃ st' h, (heal toyEnv (Cfg.new []) Stats.zero (-1) 3 (fun k => if k < 1 then rawBad else rawProse)).res = .ok (st', h) ∧
    h.attempts = [⟨0, false, 0⟩, ⟨1, true, 2⟩] ∧ h.finalConfidence = 9 / 10 := ⟨_, _, rfl, by decide +kernel, by decide +kernel⟩

/-! ## The constructor keeps a non-empty caller list: which instances share their strategy list

`Heap` (Model) is what the correspondence runs on: list objects, and instances that refer to them.  `World` /
`c11_instances_are_independent` above is the special case of instances that own their list. -/

/-- `Chaperone(strategies=arg)` in a well-formed heap: earlier instances keep their list object and see the same
    strategies; and either `arg` is a non-empty list object `k` of the caller — then no list object is created and the
    new instance refers to the caller's own object (no copy: `self.strategies = strategies or […]`), so it shares it
    with the caller and with every other instance built from it — or `arg` is `None` / an empty list, and the new
    instance gets a new list object holding the default order, which no earlier instance refers to. -/
theorem c11_constructor_keeps_a_nonempty_caller_list (h : Heap) (hwf : h.WF) (arg : Option Nat) :
    (h.construct arg).WF ∧
    (∀ i < h.insts.length, (h.construct arg).cellOf i = h.cellOf i ∧ (h.construct arg).cfgOf i = h.cfgOf i) ∧
    ((∃ k l, arg = some k ∧ h.cells[k]? = some l ∧ l ≠ [] ∧ (h.construct arg).cells = h.cells ∧
        (h.construct arg).cellOf h.insts.length = some k ∧ (h.construct arg).cfgOf h.insts.length = some ⟨l⟩) ∨
     ((arg = none ∨ ∃ k, arg = some k ∧ (h.cells[k]? = none ∨ h.cells[k]? = some [])) ∧
        (h.construct arg).cells = h.cells ++ [defaultStrategies] ∧
        (h.construct arg).cellOf h.insts.length = some h.cells.length ∧
        (h.construct arg).cfgOf h.insts.length = some ⟨defaultStrategies⟩ ∧
        ∀ i < h.insts.length, (h.construct arg).cellOf i ≠ some h.cells.length)) := by
  rcases Heap.construct_cases h arg with ⟨k, l, rfl, hk, hl⟩ | hf
  · rw [Heap.construct_alias h k l hk hl]
    have hklt : k < h.cells.length := by
      rcases Nat.lt_or_ge k h.cells.length with h1 | h1
      · exact h1
      · have : h.cells[k]? = none := by simp; omega
        rw [this] at hk; cases hk
    refine ⟨?_, ?_, Or.inl ⟨k, l, rfl, hk, hl, rfl, by simp [Heap.cellOf], by simp [Heap.cfgOf, Heap.cellOf, hk]⟩⟩
    · intro e he
      simp only [List.mem_append, List.mem_singleton] at he
      rcases he with he | rfl
      · exact hwf e he
      · exact hklt
    · intro i hi
      have := Heap.extend_old h hwf [] (k, Stats.zero) i hi
      simp only [List.append_nil] at this
      exact ⟨this.1, this.2.1⟩
  · rw [Heap.construct_fresh h arg hf]
    refine ⟨?_, ?_, Or.inr ⟨hf, rfl, by simp [Heap.cellOf], by simp [Heap.cfgOf, Heap.cellOf], ?_⟩⟩
    · intro e he
      simp only [List.mem_append, List.mem_singleton] at he
      rcases he with he | rfl
      · have := hwf e he; simp; omega
      · simp
    · intro i hi
      have := Heap.extend_old h hwf [defaultStrategies] (h.cells.length, Stats.zero) i hi
      exact ⟨this.1, this.2.1⟩
    · intro i hi
      obtain ⟨h1, _, k, hk, hlt⟩ := Heap.extend_old h hwf [defaultStrategies] (h.cells.length, Stats.zero) i hi
      rw [h1, hk]
      intro heq; cases heq; omega

/-- An in-place edit of list object `k` — by the caller through its own reference, or through `instance.strategies` of
    any instance that refers to it — is seen by exactly the instances that refer to `k`: their strategy list is the
    edited one; every other instance sees what it saw before; nobody's reference changes.  In particular two Chaperones
    built from one non-empty caller list see each other's edits, and instances built from `None`, `[]` or distinct
    lists do not. -/
theorem c11_in_place_edit_reaches_exactly_the_holders (h : Heap) (k : Nat) (t : Tune) (i : Nat) :
    (h.mutate k t).cellOf i = h.cellOf i ∧
    (h.mutate k t).cfgOf i = if h.cellOf i = some k then (h.cfgOf i).map (·.tune t) else h.cfgOf i := by
  unfold Heap.mutate
  cases hk : h.cells[k]? with
  | none =>
    refine ⟨rfl, ?_⟩
    by_cases hc : h.cellOf i = some k
    · simp [hc, Heap.cfgOf, hk]
    · simp [hc]
  | some l =>
    have hklt : k < h.cells.length := by
      rcases Nat.lt_or_ge k h.cells.length with h1 | h1
      · exact h1
      · have : h.cells[k]? = none := by simp; omega
        rw [this] at hk; cases hk
    refine ⟨rfl, ?_⟩
    by_cases hc : h.cellOf i = some k
    · have hc' : Heap.cellOf ⟨h.cells.set k (Cfg.tune ⟨l⟩ t).strategies, h.insts⟩ i = some k := hc
      have hl : h.cells[k] = l := by
        have := List.getElem?_eq_getElem hklt; rw [this] at hk; exact Option.some.inj hk
      simp [hc, Heap.cfgOf, hc', hklt]
      rw [hl]
    · have hc' : Heap.cellOf ⟨h.cells.set k (Cfg.tune ⟨l⟩ t).strategies, h.insts⟩ i = h.cellOf i := rfl
      simp only [hc, if_false, Heap.cfgOf, hc']
      cases hci : h.cellOf i with
      | none => rfl
      | some k' =>
        have hne : k ≠ k' := by intro e; subst e; exact hc hci
        simp [List.getElem?_set_ne hne]

/-- two Chaperones built from the caller's list `[REPAIR]`, a third from `None`; the first appends STRICT to its
    `strategies`: the second sees it, the third does not -/
example :
    let h := ((((Heap.empty.newList [.repair]).construct (some 0)).construct (some 0)).construct none).mutate 0 (.append .strict)
    h.cfgOf 0 = some ⟨[.repair, .strict]⟩ ∧ h.cfgOf 1 = some ⟨[.repair, .strict]⟩ ∧
    h.cfgOf 2 = some ⟨defaultStrategies⟩ := by intro h; exact ⟨rfl, rfl, rfl⟩

/-- RE-ASSIGNING the public attribute (`instance.strategies = other_list`, as opposed to editing the list in place)
    rebinds that one instance: it now sees list object `k` (and will see later in-place edits of `k`), every list
    object is as it was — so the instances that shared the old list still see it —, every other instance refers to
    what it referred to, all counters are kept, and well-formedness is preserved. -/
theorem c11_reassigning_strategies_rebinds_one_instance (h : Heap) (i k : Nat) (hi : i < h.insts.length)
    (hk : k < h.cells.length) :
    (h.assign i k).cells = h.cells ∧
    (h.assign i k).cellOf i = some k ∧
    (h.assign i k).cfgOf i = (h.cells[k]?).map Cfg.mk ∧
    (∀ j, j ≠ i → (h.assign i k).cellOf j = h.cellOf j ∧ (h.assign i k).cfgOf j = h.cfgOf j) ∧
    (∀ j, (h.assign i k).statsOf j = h.statsOf j) ∧
    (h.WF → (h.assign i k).WF) := by
  have hget : h.insts[i]? = some h.insts[i] := List.getElem?_eq_getElem hi
  have hA : h.assign i k = ⟨h.cells, h.insts.set i (k, h.insts[i].2)⟩ := by
    simp [Heap.assign, hget, hk]
  rw [hA]
  refine ⟨rfl, ?_, ?_, ?_, ?_, ?_⟩
  · simp [Heap.cellOf, hi]
  · simp [Heap.cfgOf, Heap.cellOf, hi]
  · intro j hj
    have hne : i ≠ j := fun e => hj e.symm
    constructor
    · simp [Heap.cellOf, List.getElem?_set_ne hne]
    · simp [Heap.cfgOf, Heap.cellOf, List.getElem?_set_ne hne]
  · intro j
    by_cases hj : j = i
    · subst hj; simp [Heap.statsOf, hi]
    · have hne : i ≠ j := fun e => hj e.symm
      simp [Heap.statsOf, List.getElem?_set_ne hne]
  · intro hwf e he
    rcases List.mem_or_eq_of_mem_set he with h1 | h1
    · exact hwf e h1
    · rw [h1]; exact hk

example : (((((Heap.empty.newList [.repair, .strict]).construct (some 0)).construct (some 0)).newList [.strict]).assign 0 1).insts.map (·.1)
    = [1, 0] := by decide

/-! ## The library's own wrappers: a Chaperone handed to `ChaperoneLoop` stays the caller's validator

`healH` is `ChaperoneLoop.heal` over an instance WITH callbacks (the co-chaperone registered for the loop's schema
preprocesses every generated text, `on_misfold` sees every misfolded attempt); `HInst` is one Chaperone as a fold sees
it (strategy list in force, callbacks, counters). -/

/-- Over an instance without a co-chaperone for the schema and without a (truthy) `on_misfold` the healing loop with
    callbacks is the healing loop of the section above: same result, same counters, same library calls, no callback
    invoked — every `c11_heal_…` theorem above is a theorem about it. -/
theorem c11_heal_without_callbacks_nothing_changes (env : Env J S C) (cfg : Cfg) (st : Stats) (decay : Rat)
    (maxRetries : Nat) (gen : Nat → Text) :
    ∃ st' h, (heal env cfg st decay maxRetries gen).res = .ok (st', h) ∧
      healH env Hooks.absent cfg st decay maxRetries gen =
        ⟨st', [], (heal env cfg st decay maxRetries gen).trace, .ok h⟩ := by
  obtain ⟨st', h, hres, heq⟩ := healHFrom_absent env cfg decay gen (maxRetries + 1) 0 st [] [] []
  exact ⟨st', h, hres, by simpa [healH, heal] using heq⟩

/-- "No raw text makes folding raise", through the healing loop with callbacks: an exception leaves `heal` only when it
    left `fold_enhanced` at some attempt `j ≤ max_retries`, i.e. when a user callback raised it — the co-chaperone on
    the text generated at that attempt, or `on_misfold` on the report of that misfolded attempt; with callbacks that
    return, `heal` returns a `HealingResult` for every generator, decay and library behaviour. -/
theorem c11_only_a_user_callback_makes_healing_raise (env : Env J S C) (hk : Hooks S C) (cfg : Cfg) (st : Stats)
    (decay : Rat) (maxRetries : Nat) (gen : Nat → Text) :
    (∀ e, (healH env hk cfg st decay maxRetries gen).res = .raise e →
      ∃ j, j ≤ maxRetries ∧
        ((∃ f, hk.pre = some f ∧ f (gen j) = .raise e) ∨ (∃ g rep, hk.onMisfold = some g ∧ g rep = .raise e))) ∧
    ((∀ f t, hk.pre = some f → ∃ t', f t = .ok t') → (∀ g rep, hk.onMisfold = some g → g rep = .ok ()) →
      ∃ h, (healH env hk cfg st decay maxRetries gen).res = .ok h) := by
  have hspec := healHFrom_spec env hk cfg decay gen (maxRetries + 1) 0 st [] [] []
  constructor
  · intro e he
    unfold healH at he
    rcases hspec with ⟨h, h0, _⟩ | ⟨h, j, stj, r, h0, _⟩ | ⟨e', j, stj, h0, _, hj, hfold⟩
    · rw [h0] at he; cases he
    · rw [h0] at he; cases he
    · rw [h0] at he; cases he
      refine ⟨j, by omega, ?_⟩
      rcases (c11_only_a_user_callback_makes_folding_raise env hk cfg stj (gen j) []).2.1 e hfold with
        ⟨f, hf, hr⟩ | ⟨g, rep, hg, hr, _⟩
      · exact Or.inl ⟨f, hf, hr⟩
      · exact Or.inr ⟨g, rep, hg, hr⟩
  · intro hpre hmf
    unfold healH
    rcases hspec with ⟨h, h0, _⟩ | ⟨h, j, stj, r, h0, _⟩ | ⟨e', j, stj, h0, _, hj, hfold⟩
    · exact ⟨h, h0⟩
    · exact ⟨h, h0⟩
    · obtain ⟨_, x, hx⟩ := (c11_only_a_user_callback_makes_folding_raise env hk cfg stj (gen j) []).2.2
        (fun f hf => hpre f (gen j) hf) hmf
      rw [hfold] at hx; cases hx

example : (healH toyEnv toyHooksRaising (Cfg.new []) Stats.zero (1 / 10) 2 (fun _ => rawBad)).res = .raise (.other 6) ∧
    (healH toyEnv toyHooksRaising (Cfg.new []) Stats.zero (1 / 10) 2 (fun _ => rawBad)).stats.total = 1 ∧
    ∃ h, (healH toyEnv toyHooks (Cfg.new []) Stats.zero (1 / 10) 2 (fun k => if k < 1 then rawBad else rawProse)).res = .ok h ∧
      h.outcome = .healed ∧
      (healH toyEnv toyHooks (Cfg.new []) Stats.zero (1 / 10) 2 (fun k => if k < 1 then rawBad else rawProse)).hooks.length = 3 :=
  ⟨rfl, rfl, _, rfl, rfl, rfl⟩

/-- What the healing loop hands on over an instance with callbacks: when it does not give up, the first valid
    `fold_enhanced` report, of attempt `j ≤ max_retries`: valid, no error trace, echoing the text the GENERATOR produced
    at that attempt, its structure the result of a successful `model_validate d` with `d` derived by one of the
    instance's strategies from the text the strategies worked on (the generated text, or what the caller's own
    co-chaperone made of it), only the confidence replaced by `min(confidence, ceiling of attempt j)`.  When it gives
    up: nothing.  In both cases the confidence lies in [0, 1] and is 1 only for a fold that is valid through STRICT. -/
theorem c11_heal_with_callbacks_hands_on_a_valid_fold (env : Env J S C) (hk : Hooks S C) (cfg : Cfg) (st : Stats)
    (decay : Rat) (maxRetries : Nat) (gen : Nat → Text) (h : HealOut S C)
    (hres : (healH env hk cfg st decay maxRetries gen).res = .ok h) :
    0 ≤ h.finalConfidence ∧ h.finalConfidence ≤ 1 ∧
    (∀ f, h.folded = some f → f.confidence = h.finalConfidence) ∧
    (h.finalConfidence = 1 → ∃ f, h.folded = some f ∧ f.valid = true ∧ f.strategyUsed = some .strict) ∧
    (h.outcome = .degraded → h.folded = none ∧ h.finalConfidence = 0 ∧ h.tagged = true ∧
      h.attempts = failedAtts 0 (maxRetries + 1)) ∧
    (h.outcome ≠ .degraded → ∃ j t f, j ≤ maxRetries ∧ hk.Feeds (gen j) t ∧ h.folded = some f ∧ h.tagged = false ∧
      (h.outcome = .validFirstTry ↔ j = 0) ∧ h.attempts = failedAtts 0 j ++ [⟨j, true, healCeiling decay j⟩] ∧
      f.valid = true ∧ f.err = none ∧ f.raw = gen j ∧
      ∃ s ∈ effective cfg [], ∃ d v, f.struct = some v ∧ env.validate d = .ok v ∧ Derived env t s d ∧
        f.strategyUsed = some s) := by
  unfold healH at hres
  rcases healHFrom_spec env hk cfg decay gen (maxRetries + 1) 0 st [] [] [] with
    ⟨h', h0, hd, hf, hfc, htag, ha⟩ | ⟨h', j, stj, r, h0, _, hj, hfold, hrv, hf, hfc, htag, ho, ha⟩ | ⟨e, j, stj, h0, _⟩
  · rw [h0] at hres; cases hres
    rw [hfc, hf]
    refine ⟨by grind, by grind, by simp, by grind, fun _ => ⟨rfl, rfl, htag, by simpa using ha⟩, fun hnd => absurd hd hnd⟩
  · rw [h0] at hres; cases hres
    -- the valid report of attempt j, through the fold on the text fed
    rcases foldH_cases env hk cfg stj (gen j) [] with ⟨f, e, _, _, _, hXH⟩ | ⟨t, hfeeds, _, _⟩
    · rw [hXH] at hfold; cases hfold
    obtain ⟨stj', p, x, _, hx, _, _, _, _, _, hq2⟩ :=
      c11_cochaperone_folds_the_preprocessed_text env hk cfg stj (gen j) t [] hfeeds
    have hr := hq2 r hfold
    obtain ⟨hc0, hc1, hone, _⟩ := c11_confidence_unit_and_one_only_strict env cfg stj stj' t [] x hx
    obtain ⟨⟨s, hs, d, v, hstruct, hval, hder, hsu, herr, hraw⟩, _⟩ :=
      c11_valid_is_validated_with_callbacks env hk cfg stj (gen j) t [] hfeeds
      |>.imp (fun a => a r hfold hrv) id
    have hrc : r.confidence = x.confidence := by rw [hr]
    have hceil := healCeiling_nonneg decay j
    have hmin0 : 0 ≤ ratMin r.confidence (healCeiling decay j) := by
      unfold ratMin; split
      · rw [hrc]; exact hc0
      · exact hceil
    have hmin1 : ratMin r.confidence (healCeiling decay j) ≤ r.confidence := by unfold ratMin; split <;> grind
    rw [hfc, hf]
    refine ⟨hmin0, by grind, by simp [healedFold], ?_, ?_, ?_⟩
    · intro h1
      have hr1 : x.confidence = 1 := by grind
      obtain ⟨hv, hs'⟩ := hone.mp hr1
      refine ⟨_, rfl, by simpa [healedFold] using hrv, ?_⟩
      simp only [healedFold]
      rw [hr]; exact hs'
    · intro hdeg
      rw [ho] at hdeg
      by_cases hj0 : j = 0 <;> simp [hj0] at hdeg
    · intro _
      refine ⟨j, t, healedFold decay j r, by omega, hfeeds, rfl, htag, ?_, by simpa using ha, by simpa [healedFold] using hrv,
        by simpa [healedFold] using herr, by simpa [healedFold] using hraw, s, hs, d, v,
        by simpa [healedFold] using hstruct, hval, hder, by simpa [healedFold] using hsu⟩
      rw [ho]
      by_cases hj0 : j = 0 <;> simp [hj0]
  · rw [h0] at hres; cases hres

/-- Statistics through the healing loop (with or without callbacks): every attempt is one fold — when `heal` returns,
    `total_folds` grew by exactly the number of attempt records; it grew by at least one and at most `max_retries + 1`
    also when a user callback's exception leaves `heal`; and consistent counters stay consistent (`successful_folds` =
    sum of the per-strategy successes, successes ≤ attempts, successful ≤ total). -/
theorem c11_heal_counts_one_fold_per_attempt (env : Env J S C) (hk : Hooks S C) (cfg : Cfg) (st : Stats)
    (decay : Rat) (maxRetries : Nat) (gen : Nat → Text) :
    st.total < (healH env hk cfg st decay maxRetries gen).stats.total ∧
    (healH env hk cfg st decay maxRetries gen).stats.total ≤ st.total + (maxRetries + 1) ∧
    (st.Consistent → (healH env hk cfg st decay maxRetries gen).stats.Consistent) ∧
    (∀ h, (healH env hk cfg st decay maxRetries gen).res = .ok h →
      (healH env hk cfg st decay maxRetries gen).stats.total = st.total + h.attempts.length) := by
  have key : ∀ (fuel k : Nat) (st : Stats) (atts : List HealAtt) (hs : List (HookCall S C)) (tr : Tr J S C),
      st.total ≤ (healHFrom env hk cfg decay gen fuel k st atts hs tr).stats.total ∧
      (0 < fuel → st.total < (healHFrom env hk cfg decay gen fuel k st atts hs tr).stats.total) ∧
      (healHFrom env hk cfg decay gen fuel k st atts hs tr).stats.total ≤ st.total + fuel ∧
      (st.Consistent → (healHFrom env hk cfg decay gen fuel k st atts hs tr).stats.Consistent) ∧
      (∀ h, (healHFrom env hk cfg decay gen fuel k st atts hs tr).res = .ok h →
        (healHFrom env hk cfg decay gen fuel k st atts hs tr).stats.total + atts.length = st.total + h.attempts.length) := by
    intro fuel
    induction fuel with
    | zero =>
      intro k st atts hs tr
      refine ⟨Nat.le_refl _, fun h => absurd h (Nat.lt_irrefl 0), Nat.le_refl _, fun h => h, ?_⟩
      intro h hres
      simp [healHFrom] at hres
      subst hres
      rfl
    | succ fuel ih =>
      intro k st atts hs tr
      obtain ⟨htot, heq, hcons⟩ := c11_stats_with_callbacks env hk cfg st (gen k) []
      rw [← heq] at htot hcons
      unfold healHFrom
      rcases hx : foldXH env hk cfg st (gen k) [] with ⟨st1, hs1, tr1, res⟩
      rw [hx] at htot hcons
      simp only at htot hcons
      cases res with
      | raise e =>
        refine ⟨by simp only; omega, fun _ => by simp only; omega, by simp only; omega, hcons, ?_⟩
        intro h hres; cases hres
      | ok r =>
        by_cases hv : r.valid = true
        · simp only [hv, if_true]
          refine ⟨by omega, fun _ => by omega, by omega, hcons, ?_⟩
          intro h hres
          cases hres
          simp
          omega
        · simp only [hv]
          obtain ⟨i1, _, i3, i4, i5⟩ := ih (k + 1) st1 (atts ++ [⟨k, false, 0⟩]) (hs ++ hs1) (tr ++ tr1)
          refine ⟨by simp at i1 ⊢; omega, fun _ => by simp at i1 ⊢; omega, by simp at i3 ⊢; omega,
            fun hc => by simpa using i4 (hcons hc), ?_⟩
          intro h hres
          have := i5 h (by simpa using hres)
          simp at this ⊢
          omega
  obtain ⟨_, k2, k3, k4, k5⟩ := key (maxRetries + 1) 0 st [] [] []
  refine ⟨k2 (Nat.succ_pos _), k3, k4, ?_⟩
  intro h hres
  have := k5 h hres
  simpa [healH] using this

/-- A Chaperone that was handed to the library's healing wrapper stays the validator the caller configured: constructing
    a `ChaperoneLoop` on it changes nothing, and a healing run moves its counters only — strategy list and callbacks are
    the caller's, and every later `fold_enhanced` / `fold` on it invokes the same callbacks, makes the same library
    calls and returns the same report (or raises the same callback exception) as on the instance that was never
    wrapped; in particular clean JSON is still taken verbatim by STRICT and a valid structure is still derived from the
    raw text (the theorems above apply to it unchanged). -/
theorem c11_wrapped_instance_is_the_callers_validator (env envHeal : Env J S C) (i : HInst S C) (decay : Rat)
    (maxRetries : Nat) (gen : Nat → Text) (raw : Text) (call : List Strategy) :
    i.wrapInLoop = i ∧
    (i.wrapInLoop.afterHeal envHeal decay maxRetries gen).cfg = i.cfg ∧
    (i.wrapInLoop.afterHeal envHeal decay maxRetries gen).hooks = i.hooks ∧
    (∀ i' : HInst S C, i' = i.wrapInLoop.afterHeal envHeal decay maxRetries gen →
      (foldXH env i'.hooks i'.cfg i'.stats raw call).hooks = (foldXH env i.hooks i.cfg i.stats raw call).hooks ∧
      (foldXH env i'.hooks i'.cfg i'.stats raw call).trace = (foldXH env i.hooks i.cfg i.stats raw call).trace ∧
      (foldXH env i'.hooks i'.cfg i'.stats raw call).res = (foldXH env i.hooks i.cfg i.stats raw call).res ∧
      (foldH env i'.hooks i'.cfg i'.stats raw call).hooks = (foldH env i.hooks i.cfg i.stats raw call).hooks ∧
      (foldH env i'.hooks i'.cfg i'.stats raw call).trace = (foldH env i.hooks i.cfg i.stats raw call).trace ∧
      ((∃ e, (foldH env i'.hooks i'.cfg i'.stats raw call).res = .raise e ∧
             (foldH env i.hooks i.cfg i.stats raw call).res = .raise e) ∨
       (∃ p p', (foldH env i'.hooks i'.cfg i'.stats raw call).res = .ok p' ∧
             (foldH env i.hooks i.cfg i.stats raw call).res = .ok p ∧
             p'.valid = p.valid ∧ p'.struct = p.struct ∧ p'.raw = p.raw))) := by
  refine ⟨rfl, rfl, rfl, ?_⟩
  intro i' hi'
  subst hi'
  simp only [HInst.wrapInLoop, HInst.afterHeal]
  obtain ⟨k1, k2, k3⟩ := foldXH_counters_irrelevant env i.hooks i.cfg
    (healH envHeal i.hooks i.cfg i.stats decay maxRetries gen).stats i.stats raw call
  obtain ⟨a1, a2, _, a4⟩ := c11_plain_and_enhanced_agree_with_callbacks env i.hooks i.cfg
    (healH envHeal i.hooks i.cfg i.stats decay maxRetries gen).stats raw call
  obtain ⟨b1, b2, _, b4⟩ := c11_plain_and_enhanced_agree_with_callbacks env i.hooks i.cfg i.stats raw call
  refine ⟨k1, k2, k3, by rw [a1, b1, k1], by rw [a2, b2, k2], ?_⟩
  rcases a4 with ⟨e, ha, hax⟩ | ⟨p', x', ha, hax, hv', hs', hr', _⟩ <;>
    rcases b4 with ⟨e2, hb, hbx⟩ | ⟨p, x, hb, hbx, hv, hs, hr, _⟩
  · rw [k3, hbx] at hax; cases hax
    exact Or.inl ⟨_, ha, hb⟩
  · rw [k3, hbx] at hax; cases hax
  · rw [k3, hbx] at hax; cases hax
  · rw [k3, hbx] at hax; cases hax
    exact Or.inr ⟨p, p', ha, hb, by rw [hv', hv], by rw [hs', hs], by rw [hr', hr]⟩

example : (HInst.afterHeal toyEnv (⟨Cfg.new [.repair, .strict], toyHooks, Stats.zero⟩ : HInst Nat Nat) (1 / 10) 2
      (fun k => if k < 1 then rawBad else rawProse)).stats.total = 2 ∧
    (HInst.afterHeal toyEnv (⟨Cfg.new [.repair, .strict], toyHooks, Stats.zero⟩ : HInst Nat Nat) (1 / 10) 2
      (fun k => if k < 1 then rawBad else rawProse)).cfg.strategies = [.repair, .strict] := ⟨rfl, rfl⟩

/-! ## The tables and constants the model uses are the ones in the source (regenerated every run) -/

/-- The extraction table, the repair table, the default strategy order, the members of `FoldingStrategy` and
    every confidence literal / formula, as extracted from the current source (`Operon/Gen/ChaperoneTables.lean`,
    rewritten by every run), equal what the model uses: index `i` of `findall i` / `sub i` is entry `i` of the
    pinned tables, `patternIds` / `repairIds` enumerate them in table order, `defaultStrategies` is the default
    order, and the `Rat` constants of the model are the decimal literals of the source. -/
theorem c11_extracted_tables_agree :
    Gen.ChaperoneTables.patterns = some (extractionTable.map fun e => (cps e.1, cps e.2)) ∧
    Gen.ChaperoneTables.repairs = some (repairTable.map fun e => (cps e.1, cps e.2.1, cps e.2.2)) ∧
    patternIds = List.range extractionTable.length ∧ repairIds = List.range repairTable.length ∧
    Gen.ChaperoneTables.defaultOrder = some (defaultStrategies.map Strategy.name) ∧
    Gen.ChaperoneTables.strategyMembers = some ([.strict, .extraction, .lenient, .repair].map Strategy.name) ∧
    Gen.ChaperoneTables.strictConfidence.map q = some cStrict ∧
    Gen.ChaperoneTables.extractionConfidence.map q = some cExtraction ∧
    Gen.ChaperoneTables.failedConfidence.map q = some cFailed ∧
    Gen.ChaperoneTables.defaultConfidence.map q = some cDefault ∧
    (∃ b s f, Gen.ChaperoneTables.lenientFormula = some (b, s, f) ∧
      ∀ n, lenientConfidence n = ratMax (q f) (q b - (n : Rat) * q s)) ∧
    (∃ b s f, Gen.ChaperoneTables.repairFormula = some (b, s, f) ∧
      ∀ n, repairConfidence n = ratMax (q f) (q b - (n : Rat) * q s)) := by
  refine ⟨by decide +kernel, by decide +kernel, by decide, by decide, by decide, by decide,
    by decide +kernel, by decide +kernel, by decide +kernel, by decide +kernel, ?_, ?_⟩
  · refine ⟨_, _, _, rfl, fun n => ?_⟩
    have h1 : q (1, 2) = 1 / 2 := by decide +kernel
    have h2 : q (17, 20) = 17 / 20 := by decide +kernel
    have h3 : q (1, 20) = 1 / 20 := by decide +kernel
    rw [h1, h2, h3]; rfl
  · refine ⟨_, _, _, rfl, fun n => ?_⟩
    have h1 : q (2, 5) = 2 / 5 := by decide +kernel
    have h2 : q (3, 4) = 3 / 4 := by decide +kernel
    have h3 : q (1, 20) = 1 / 20 := by decide +kernel
    rw [h1, h2, h3]; rfl

/-- What the library's own wrappers do to a Chaperone, EVALUATED on the real classes on every run (a probe object stands
    in for the Chaperone), equals what the model assumes: constructing a `ChaperoneLoop` calls no method of the Chaperone
    and leaves its configuration (strategy list, co-chaperones, `on_misfold`, tables) as it was — `HInst.wrapInLoop` is
    the identity; a healing run over one misfold and one clean text calls `fold_enhanced` twice and nothing else and
    leaves the configuration as it was — `healH` is made of `foldXH`, `HInst.afterHeal` moves the counters only;
    `BioAgent(…).chaperone` is a default-configured `Chaperone` with a list of its own (protocol op `agent` = `new none`);
    the package's exports (`operon_ai`, `operon_ai.organelles`, `operon_ai.healing`) are the very classes the modules
    define, not preconfigured stand-ins (protocol op `via` changes nothing); an omitted `strategies` / `co_chaperones` /
    `on_misfold` argument is `None` (protocol token `omit` = `none`). -/
theorem c11_extracted_wrapper_facts_agree :
    Gen.ChaperoneTables.loopCtorCalls = some loopCtorCalls ∧
    Gen.ChaperoneTables.loopCtorLeavesConfig = some true ∧
    Gen.ChaperoneTables.healCalls = some (healCallsFor 1) ∧
    Gen.ChaperoneTables.healLeavesConfig = some true ∧
    Gen.ChaperoneTables.agentChaperoneIsDefault = some true ∧
    Gen.ChaperoneTables.exportsAreTheDefinitions = some true ∧
    Gen.ChaperoneTables.omittedArgumentIsNone = some true := by
  refine ⟨by decide, by decide, by decide, by decide, by decide, by decide, by decide⟩

/-- What STRICT tolerates around clean JSON, EVALUATED on the real class through its public API on every run
    (`fold` / `fold_enhanced` with `[STRICT]` on a nested document with one code point in front of it / behind it; probe
    domain = every control, format and separator code point of Unicode, the neighbours of every white-space code point,
    noncharacters, private-use, tag and blank-looking code points, a few ordinary characters): both folds accept the
    text exactly when the code point is white space in the model's sense (`isSpace`, what `strip` removes) — a byte
    order mark, a zero-width space, a NUL are not skipped by either fold.  And Python's `str.isspace`, evaluated over
    ALL code points, is the model's `isSpace`.  (kind: table; source → Gen → model) -/
theorem c11_extracted_strict_trims_white_space_only :
    (∃ dom, Gen.ChaperoneTables.strictProbeDomain = some dom ∧ 250 ≤ dom.length ∧ 0xfeff ∈ dom ∧ 0x200b ∈ dom ∧
      Gen.ChaperoneTables.strictPlainAcceptsLeading = some (dom.filter isSpace) ∧
      Gen.ChaperoneTables.strictPlainAcceptsTrailing = some (dom.filter isSpace) ∧
      Gen.ChaperoneTables.strictEnhancedAcceptsLeading = some (dom.filter isSpace) ∧
      Gen.ChaperoneTables.strictEnhancedAcceptsTrailing = some (dom.filter isSpace)) ∧
    (∃ rs, Gen.ChaperoneTables.pythonSpaceRanges = some rs ∧
      ∀ c, isSpace c = rs.any (fun r => r.1 ≤ c && c ≤ r.2)) := by
  refine ⟨⟨_, rfl, by decide +kernel, by decide +kernel, by decide +kernel, by decide +kernel, by decide +kernel,
    by decide +kernel, by decide +kernel⟩, ⟨_, rfl, ?_⟩⟩
  intro c
  simp only [isSpace, List.any_cons, List.any_nil]
  rw [Bool.eq_iff_iff]
  simp
  omega

end Operon.Chaperone
