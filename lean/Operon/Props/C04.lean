import Operon.Model.Atp
/-! # C04 — energy ledger (work in progress: model of the CURRENT tree, witnesses of its defects) -/
namespace Operon.Atp

/-- top-up then debt overcharges: budget 5, NADH 3, `consume(10, allow_debt=True)` removes 13 -/
theorem c04_topup_then_debt_overcharge_witness :
    let s := Store.fresh 5 0 3 100 1 10
    ((consumeCore s 10 .atp true 0).2.success = true) ∧ (consumeCore s 10 .atp true 0).1.worth = s.worth - 13 := by
  decide

end Operon.Atp
