import Operon.Lemmas.C04
import Operon.Lemmas.C04Race
import Operon.Gen.MetabolismConsts
import Operon.Gen.AtpTranslated
/-!
# C04 — energy ledger: no overdraft, exact charging, free failures, bounded total spend

Property theorems only.  Model: `Operon/Model/Atp.lean` (hand-written, tied to
`operon_ai/state/metabolism.py :: ATP_Store` by the differential correspondence of `harness/vf/props/c04.py`).

Every statement quantifies over
* every behaviour of the `on_state_change` observers: `obs : Obs` is what a store's observer does when
  `_update_state` calls it (return, or raise exception `k`); along histories `adv k j` is the behaviour of
  store `j`'s observer during step `k` — an arbitrary, stateful, possibly raising observer per store.  A raising
  observer makes the call raise AFTER the mutation; every ledger clause below holds regardless,
* every metabolic-state classifier `cls` (the float computation of `_update_state` is a parameter: no clause
  of the property depends on which state the thresholds pick),
* every store / colony of stores — all budgets, capacities (zero included), debt limits, interest rates,
  counters and metabolic states; `Sys.WF` only says "balances, debt and capacities are non-negative", which
  holds for every constructed store (`fresh_wf`) and is preserved (`c04_balances_nonneg`),
* every finite history `ops : List Op` of consume (all currencies, allow_debt, priority), regenerate,
  transfer_to (any two stores, also a store to itself), convert_nadh_to_atp, enter/exit dormancy,
  apply_debt_interest and reset with natural-number arguments — no bound on length or on any amount.

Balances are `Int` in the model (Python ints), so non-negativity is proved, not assumed by typing.
-/
namespace Operon.Atp

variable (cls : Classifier) (obs : Obs) (obsN : Nat → Obs) (adv : Nat → Nat → Obs) (k : Nat)

/-! ### exact charging, free failures -/

/-- `consume` returns a bool, or raises exactly what the observer raised — whatever the store (zero
    capacities, debt, any state). -/
theorem c04_consume_returns_bool_or_observer_raised (s : Store) (cost : Nat) (cur : Cur) (d : Bool) (p : Nat) :
    (∃ b, (consumeO cls obs s cost cur d p).2.1 = .ok b) ∨
    (∃ k st, (consumeO cls obs s cost cur d p).2.1 = .error (.observer k) ∧ obs st = some k) := by
  have h := (consumeO_spec cls obs s cost cur d p).2
  cases hb : (consumeO cls obs s cost cur d p).2.2.success
  · simp only [hb, Bool.false_eq_true, reduceIte] at h; exact Or.inl ⟨_, h⟩
  · simp only [hb, reduceIte] at h
    rcases h with h | h
    · exact Or.inl ⟨_, h⟩
    · exact Or.inr h

/-- With no observer installed (or one that never raises) `consume` always returns a bool. -/
theorem c04_consume_returns_bool (s : Store) (cost : Nat) (cur : Cur) (d : Bool) (p : Nat) :
    ∃ b, (consume cls s cost cur d p).2.1 = .ok b :=
  ⟨_, (consume_spec cls s cost cur d p).2⟩

/-- A spend that reports success removes exactly its cost from the store's net worth (balances minus debt):
    direct deduction, NADH top-up, debt, and top-up followed by debt alike, in every currency, with any
    observer installed. -/
theorem c04_success_charges_exactly (s : Store) (cost : Nat) (cur : Cur) (d : Bool) (p : Nat)
    (h : (consumeO cls obs s cost cur d p).2.1 = .ok true) :
    (consumeO cls obs s cost cur d p).1.worth = s.worth - cost := by
  have hb := consumeO_success_of_ok_true cls obs h
  have := (consumeO_spec cls obs s cost cur d p).1.worth
  simp only [hb, reduceIte] at this; exact this

/-- A spend that reports failure removes nothing and creates nothing: net worth, debt, the sum of the
    balances, the GTP balance and the audit counter are unchanged (a refused ATP spend may still have moved
    NADH into ATP — that is a conversion inside the store, not a charge).
    Over histories: the converted NADH may leave ATP above `max_atp` (cost larger than the capacity), and a LATER ATP
    `regenerate` clamps ATP back to the capacity (last example of this file: ATP 8 → `regenerate 1` → 5) — the
    refused spend itself is free, the energy is lost by the clamp of the next regeneration; regeneration has only an
    upper bound (`c04_regenerate_adds_at_most`), as in the property text. -/
theorem c04_failure_is_free (s : Store) (cost : Nat) (cur : Cur) (d : Bool) (p : Nat)
    (h : (consumeO cls obs s cost cur d p).2.1 = .ok false) :
    (consumeO cls obs s cost cur d p).1.worth = s.worth ∧ (consumeO cls obs s cost cur d p).1.debt = s.debt ∧
    (consumeO cls obs s cost cur d p).1.total = s.total ∧ (consumeO cls obs s cost cur d p).1.gtp = s.gtp ∧
    (consumeO cls obs s cost cur d p).1.consumed = s.consumed := by
  obtain ⟨hs, hr⟩ := consumeO_spec cls obs s cost cur d p
  have hb : (consumeO cls obs s cost cur d p).2.2.success = false := by
    cases hb : (consumeO cls obs s cost cur d p).2.2.success
    · rfl
    · simp only [hb, reduceIte] at hr
      rcases hr with hr | ⟨_, _, hr, -⟩ <;> rw [hr] at h <;> cases h
  have h1 := hs.worth; have h2 := hs.consumed; have h3 := hs.free hb
  simp only [hb, Bool.false_eq_true, reduceIte] at h1 h2
  exact ⟨by omega, h3.1, h3.2.1, h3.2.2, by omega⟩

/-- The audit counter `total_consumed` grows by exactly the cost of every successful spend. -/
theorem c04_audit_counter_exact (s : Store) (cost : Nat) (cur : Cur) (d : Bool) (p : Nat)
    (h : (consumeO cls obs s cost cur d p).2.1 = .ok true) :
    (consumeO cls obs s cost cur d p).1.consumed = s.consumed + cost := by
  have hb := consumeO_success_of_ok_true cls obs h
  have := (consumeO_spec cls obs s cost cur d p).1.consumed
  simp only [hb, reduceIte] at this; exact this

/-- A spend that the observer interrupted (the call raised) had already gone through: the exception is the
    observer's, and the store was charged exactly the cost (net worth and audit counter) — never more, and never
    a charge without the spend having succeeded. -/
theorem c04_interrupted_spend_charged_exactly (s : Store) (cost : Nat) (cur : Cur) (d : Bool) (p : Nat) (e : Exc)
    (h : (consumeO cls obs s cost cur d p).2.1 = .error e) :
    (∃ k st, e = .observer k ∧ obs st = some k) ∧
    (consumeO cls obs s cost cur d p).1.worth = s.worth - cost ∧
    (consumeO cls obs s cost cur d p).1.consumed = s.consumed + cost := by
  obtain ⟨hs, hr⟩ := consumeO_spec cls obs s cost cur d p
  cases hb : (consumeO cls obs s cost cur d p).2.2.success
  · simp only [hb, Bool.false_eq_true, reduceIte] at hr; rw [hr] at h; cases h
  · simp only [hb, reduceIte] at hr
    have h1 := hs.worth; have h2 := hs.consumed
    simp only [hb, reduceIte] at h1 h2
    rcases hr with hr | ⟨k', st, hr, hk⟩
    · rw [hr] at h; cases h
    · rw [hr] at h; cases h; exact ⟨⟨k', st, rfl, hk⟩, h1, h2⟩

/-! ### no overdraft -/

/-- Every balance, the debt (and every capacity) of every store stays `>= 0` along every history.  (A history
    is any list, so this covers every intermediate state as well.) -/
theorem c04_balances_nonneg (sys : Sys) (ops : List Op) (wf : Sys.WF sys) : Sys.WF (run cls adv k sys ops).1 :=
  run_wf cls adv ops k sys wf

/-- Debt stays within its limit, interest aside: after any history the debt of store `i` is at most its
    (unchanged) debt limit plus the interest that `apply_debt_interest` charged to it along the way. -/
theorem c04_debt_within_limit (sys : Sys) (ops : List Op) (wf : Sys.WF sys) (i : Nat) (s : Store)
    (h : sys[i]? = some s) (hd : s.debt ≤ s.maxDebt) :
    ∃ s', (run cls adv k sys ops).1[i]? = some s' ∧ s'.maxDebt = s.maxDebt ∧
      s'.debt ≤ s.maxDebt + accrued cls adv i k sys ops := by
  obtain ⟨s', h1, h2, h3, -⟩ := run_debt cls adv i ops k sys s 0 wf h (Int.le_refl 0) (by omega)
  exact ⟨s', h1, h2, by omega⟩

/-- … and without `apply_debt_interest` in the history the debt never exceeds the limit. -/
theorem c04_debt_within_limit_no_interest (sys : Sys) (ops : List Op) (wf : Sys.WF sys) (i : Nat) (s : Store)
    (h : sys[i]? = some s) (hd : s.debt ≤ s.maxDebt) (hno : ∀ op ∈ ops, ∀ j, op ≠ .interest j) :
    ∃ s', (run cls adv k sys ops).1[i]? = some s' ∧ s'.debt ≤ s'.maxDebt := by
  obtain ⟨s', h1, h2, h3⟩ := c04_debt_within_limit cls adv k sys ops wf i s h hd
  rw [accrued_eq_zero cls adv i ops k sys hno] at h3
  exact ⟨s', h1, by omega⟩

/-! ### regeneration, transfers -/

/-- Regeneration (also the deposit half of a transfer, which is the peer's `regenerate`) never lifts a
    balance above its capacity: afterwards every balance is at most the larger of its capacity and its
    previous value — the currency regenerated and the other two alike. -/
theorem c04_regenerate_never_above_capacity (s : Store) (n : Nat) (cur c : Cur) :
    (regenerateO cls obs s n cur).1.bal c ≤ max (s.cap c) (s.bal c) ∧ (regenerateO cls obs s n cur).1.cap c = s.cap c := by
  have h := (regenerateO_spec cls obs s n cur).1
  refine ⟨h.capped c, ?_⟩
  obtain ⟨h1, h2, h3, -⟩ := h.cfg
  cases c <;> simp only [Store.cap] <;> assumption

/-- In particular a balance within its capacity stays within it. -/
theorem c04_regenerate_within_capacity (s : Store) (n : Nat) (cur c : Cur) (h : s.bal c ≤ s.cap c) :
    (regenerateO cls obs s n cur).1.bal c ≤ (regenerateO cls obs s n cur).1.cap c := by
  obtain ⟨h1, h2⟩ := c04_regenerate_never_above_capacity cls obs s n cur c
  omega

/-- Along every history GTP and NADH stay within their capacities (no operation at all lifts them above).
    The same is NOT claimed for ATP, and would be false: a refused ATP spend keeps the NADH it already converted,
    which can leave ATP above `max_atp` (see the last example of this file) — by `consume`, not by regeneration. -/
theorem c04_gtp_nadh_stay_within_capacity (sys : Sys) (ops : List Op) (h : Sys.Within sys) :
    Sys.Within (run cls adv k sys ops).1 :=
  run_within cls adv ops k sys h

/-- Regeneration adds at most the regenerated amount to the net worth, and raises only what the observer raised. -/
theorem c04_regenerate_adds_at_most (s : Store) (n : Nat) (cur : Cur) :
    (regenerateO cls obs s n cur).1.worth ≤ s.worth + n ∧
    ((regenerateO cls obs s n cur).2 = .ok () ∨
     ∃ k st, (regenerateO cls obs s n cur).2 = .error (.observer k) ∧ obs st = some k) :=
  ⟨(regenerateO_spec cls obs s n cur).1.worth, (regenerateO_spec cls obs s n cur).2⟩

/-- Transfers never create energy: the combined net worth of the colony does not increase, for any two
    stores (a store transferring to itself included), any amount, any currency, any outcome. -/
theorem c04_transfer_never_creates (sys : Sys) (i j n : Nat) (cur : Cur) :
    sumOf Store.worth (step cls obsN sys (.transfer i j n cur)).1 ≤ sumOf Store.worth sys := by
  have := step_pot pot_worth cls obsN sys (.transfer i j n cur) (fun _ h => nomatch h) rfl
  simp only [paid] at this; omega

/-- A transfer that reports failure leaves every store of the colony exactly as it was. -/
theorem c04_failed_transfer_is_free (sys : Sys) (i j n : Nat) (cur : Cur)
    (h : (step cls obsN sys (.transfer i j n cur)).2 = .bool false) : (step cls obsN sys (.transfer i j n cur)).1 = sys :=
  step_transfer_refused cls obsN sys i j n cur h

/-- `convert_nadh_to_atp` moves energy between NADH and ATP inside the store: net worth, debt and the sum of
    the balances are unchanged (whatever it returns, including the non-positive "nothing converted" values). -/
theorem c04_convert_keeps_worth (s : Store) (n : Nat) :
    (convert s n).1.worth = s.worth ∧ (convert s n).1.debt = s.debt ∧ (convert s n).1.total = s.total := by
  have h := convert_spec s n
  exact ⟨pot_worth.convert s n, h.debt, h.total⟩

/-- More generally only `regenerate` and `reset` bring energy in: every other call leaves the colony's net
    worth where it was or lower, and a successful `consume` lowers it by exactly its cost. -/
theorem c04_only_inflow_creates (sys : Sys) (op : Op) (wf : Sys.WF sys) (h : op.inflow = false) :
    sumOf Store.worth (step cls obsN sys op).1 + paid op (step cls obsN sys op).2 ≤ sumOf Store.worth sys :=
  step_pot pot_worth cls obsN sys op (fun _ _ => wf) h

/-! ### bounded total spend -/

/-- Without regeneration (no `regenerate`, no `reset`) the total cost of the spends that reported success,
    over all stores of the colony, is bounded by what the colony could pay at the start: its balances plus
    the unused part of its debt limits (`room`).  Transfers between the stores, conversions, dormancy and
    interest are allowed in the history.  "Reported success" is literal (`paid` counts `.bool true` only, as the
    property does): a spend interrupted by a raising observer was charged exactly its cost
    (`c04_interrupted_spend_charged_exactly`) but counts 0 here — the bound stays true, it just does not count that spend. -/
theorem c04_total_spend_bounded (sys : Sys) (ops : List Op) (wf : Sys.WF sys)
    (h : ∀ op ∈ ops, op.inflow = false) :
    spentOf ops (run cls adv k sys ops).2 ≤ sumOf Store.room sys := by
  have h1 := run_pot pot_room cls adv ops k sys wf h
  have h2 := sumOf_nonneg Store.room room_nonneg _ (run_wf cls adv ops k sys wf)
  omega

/-- The same for one freshly constructed store, in the words of the property: total successful spend is at
    most initial balances plus the debt limit. -/
theorem c04_total_spend_bounded_fresh (b g n md rn rd : Nat) (ops : List Op)
    (h : ∀ op ∈ ops, op.inflow = false) :
    spentOf ops (run cls adv k [Store.fresh b g n md rn rd] ops).2 ≤ b + g + n + md := by
  have wf : Sys.WF [Store.fresh b g n md rn rd] := by
    intro i s hs
    cases i with
    | zero => simp at hs; subst hs; exact fresh_wf b g n md rn rd
    | succ k => simp at hs
  have := c04_total_spend_bounded cls adv k _ ops wf h
  simp only [sumOf, List.map, List.sum_cons, List.sum_nil, room_fresh] at this
  omega

/-- So any loop that pays a positive cost per step halts: in a history without inflow in which every
    `consume` costs at least 1, the number of spends that report success is bounded by `room` … -/
theorem c04_positive_cost_successes_bounded (sys : Sys) (ops : List Op) (wf : Sys.WF sys)
    (h : ∀ op ∈ ops, op.inflow = false)
    (hpos : ∀ op ∈ ops, ∀ i cost cur d p, op = .consume i cost cur d p → 1 ≤ cost) :
    (successes ops (run cls adv k sys ops).2 : Int) ≤ sumOf Store.room sys :=
  Int.le_trans (successes_le_spent ops _ hpos) (c04_total_spend_bounded cls adv k sys ops wf h)

/-- … hence a history in which every `consume` call succeeded contains at most `room` of them: the
    `room + 1`-st paying call of any loop is refused, whatever else (without inflow) the loop does. -/
theorem c04_positive_cost_loop_halts (sys : Sys) (ops : List Op) (wf : Sys.WF sys)
    (h : ∀ op ∈ ops, op.inflow = false)
    (hpos : ∀ op ∈ ops, ∀ i cost cur d p, op = .consume i cost cur d p → 1 ≤ cost)
    (hall : AllConsumesSucceed ops (run cls adv k sys ops).2) :
    (consumeCalls ops : Int) ≤ sumOf Store.room sys := by
  have := c04_positive_cost_successes_bounded cls adv k sys ops wf h hpos
  rw [successes_eq_calls ops _ hall] at this
  exact this

/-- The loop itself: `while store[i].consume(cost, …): <body>` with `cost ≥ 1` and any body of calls without
    inflow completes at most `room` iterations, and given more fuel than `room` it is left because the spend
    did not report success (refused, or interrupted by a raising observer), not because the fuel ran out — i.e.
    the loop halts, whatever the observers do. -/
theorem c04_pay_loop_halts (sys : Sys) (wf : Sys.WF sys) (i cost : Nat) (cur : Cur) (d : Bool) (p : Nat)
    (body : List Op) (hc : 1 ≤ cost) (hb : ∀ op ∈ body, op.inflow = false) (fuel : Nat)
    (hf : sumOf Store.room sys < fuel) :
    (payLoop cls adv i cost cur d p body fuel k sys).2 = true ∧
    ((payLoop cls adv i cost cur d p body fuel k sys).1 : Int) ≤ sumOf Store.room sys :=
  ⟨(payLoop_spec cls adv i cost cur d p body hc hb fuel k sys wf).2 hf,
   (payLoop_spec cls adv i cost cur d p body hc hb fuel k sys wf).1⟩

/-! ### no operation raises (unless the observer raised) -/

/-- If a call raises, the exception is one that the `on_state_change` observer of some store raised during that
    very call — for every colony (well formed or not, zero capacities, debt present), every operation, every
    argument.  The only exception the code itself could raise on integer arguments is the `ZeroDivisionError` of
    `_update_state`; both of its divisions are guarded. -/
theorem c04_raises_only_what_observer_raised (sys : Sys) (op : Op) (e : Exc)
    (h : (step cls obsN sys op).2 = .raised e) : ∃ j n st, e = .observer n ∧ obsN j st = some n :=
  step_raise_only_observer cls obsN sys op e h

/-- No call raises when no observer raises (in particular when none is installed). -/
theorem c04_no_raise (sys : Sys) (op : Op) (hobs : ∀ j st, obsN j st = none) (e : Exc) :
    (step cls obsN sys op).2 ≠ .raised e :=
  step_no_raise cls obsN sys op hobs e

/-- … along every history: whatever a history raises was raised by an observer at that step. -/
theorem c04_raises_only_what_observer_raised_run (sys : Sys) (ops : List Op) :
    ∀ r ∈ (run cls adv k sys ops).2, ∀ e, r = .raised e → ∃ m j n st, e = .observer n ∧ adv m j st = some n := by
  induction ops generalizing sys k with
  | nil => intro r hr; simp [run] at hr
  | cons op ops ih =>
    intro r hr e he
    simp only [run, List.mem_cons] at hr
    rcases hr with rfl | hr
    · obtain ⟨j, n, st, h1, h2⟩ := step_raise_only_observer cls (adv k) sys op e he
      exact ⟨k, j, n, st, h1, h2⟩
    · exact ih (k + 1) _ r hr e he

/-- … and a history run without observers (`noObs`) never raises. -/
theorem c04_no_raise_run (sys : Sys) (ops : List Op) : ∀ r ∈ (run cls noObs k sys ops).2, ∀ e, r ≠ .raised e := by
  intro r hr e he
  obtain ⟨m, j, n, st, -, h⟩ := c04_raises_only_what_observer_raised_run cls noObs k sys ops r hr e he
  simp [noObs, Obs.silent] at h

/-! ### overlapping calls

`race cls o1 o2 sys n a b` (Model/Atp.lean): call `a` is preempted just before its `n`-th lock acquisition and call `b` runs to
completion there; on the lock structure of the source (one region per call, two for `transfer_to`: E3's facts, C05) that is
`b; a`, or `withdraw; b; deposit`, or `a; b`.  The harness drives the real code through exactly these overlaps (`race`
protocol lines) and compares; interleavings at line granularity are C05's. -/

/-- Every balance, the debt and every capacity stay `>= 0` when two calls overlap - also while the energy of a transfer is
    in flight between its halves. -/
theorem c04_overlapping_calls_keep_balances_nonneg (o1 o2 : Nat → Obs) (sys : Sys) (n : Nat) (a b : Op) (wf : Sys.WF sys) :
    Sys.WF (race cls o1 o2 sys n a b).1 :=
  race_wf cls o1 o2 sys n a b wf

/-- The caller may assign the store's public attributes between calls (`store.atp = v`, `store.max_debt = v`, ...: any
    non-negative int).  That is a change of configuration, not a ledger operation - and no theorem above depends on how the
    configuration came about: the colony stays well-formed, so balances, debt and capacities stay `>= 0` along every history
    that follows (and with them every other history theorem, all stated from an arbitrary well-formed colony). -/
theorem c04_history_after_public_assignment (sys : Sys) (i : Nat) (s : Store) (f : Field) (v : Nat) (ops : List Op)
    (wf : Sys.WF sys) (h : sys[i]? = some s) : Sys.WF (run cls adv k (sys.set i (s.assign f v)) ops).1 :=
  c04_balances_nonneg cls adv k _ ops (set_wf wf i _ (assign_wf s f v (wf i s h)))

/-- Overlapping calls create nothing, and each spend that reports success is paid for: without regeneration among the
    two calls, what the colony holds afterwards plus the cost of the spends that reported success is at most what it held. -/
theorem c04_overlapping_calls_create_nothing (o1 o2 : Nat → Obs) (sys : Sys) (n : Nat) (a b : Op) (wf : Sys.WF sys)
    (ha : a.inflow = false) (hb : b.inflow = false) :
    sumOf Store.worth (race cls o1 o2 sys n a b).1 + paid a (race cls o1 o2 sys n a b).2.1
      + paid b (race cls o1 o2 sys n a b).2.2 ≤ sumOf Store.worth sys :=
  race_pot pot_worth cls o1 o2 sys n a b wf ha hb

/-- … and two overlapping spends cannot both be paid out of what covers only one: the costs of the calls that reported
    success are bounded by what the colony could pay (balances + unused credit). -/
theorem c04_overlapping_spends_bounded (o1 o2 : Nat → Obs) (sys : Sys) (n : Nat) (a b : Op) (wf : Sys.WF sys)
    (ha : a.inflow = false) (hb : b.inflow = false) :
    paid a (race cls o1 o2 sys n a b).2.1 + paid b (race cls o1 o2 sys n a b).2.2 ≤ sumOf Store.room sys := by
  have h1 := race_pot pot_room cls o1 o2 sys n a b wf ha hb
  have h2 := sumOf_nonneg Store.room room_nonneg _ (race_wf cls o1 o2 sys n a b wf)
  omega

/-- Neither of two overlapping calls raises (observers that never raise). -/
theorem c04_overlapping_calls_do_not_raise (o1 o2 : Nat → Obs) (sys : Sys) (n : Nat) (a b : Op)
    (h1 : ∀ j st, o1 j st = none) (h2 : ∀ j st, o2 j st = none) (e : Exc) :
    (race cls o1 o2 sys n a b).2.1 ≠ .raised e ∧ (race cls o1 o2 sys n a b).2.2 ≠ .raised e :=
  race_no_raise cls o1 o2 sys n a b h1 h2 e

/-! ### the model IS the source: agreement with the translation of the current Python code

`Operon.Gen.AtpT.*` are produced on every run by `harness/vf/extract/py2lean_metabolism.py` from the Python AST
of the lock-region bodies of `ATP_Store` (symbolic execution of the statement lists: assignments, `if/elif/else`,
early returns, `min`/`int`, `_record_transaction`, `_update_state`).  Each theorem below states that the translated
function equals the hand-written model function for all stores, arguments, classifiers and observers, so that
every statement of this file (and of C05) is a statement about the code as it reads now.  A construct outside the
translator's subset yields a definition that cannot agree (fail closed).  Not covered by the translation (tied by
the differential correspondence only): the constructor, the float classifier inside `_update_state`, the
composition of the two halves of `transfer_to` in `step`, threading. -/

section Translation
open Operon.Gen.AtpT
set_option linter.unusedSimpArgs false   -- which simp lemmas fire depends on what the translator read

/-- closes a leaf of an agreement proof: identical terms, contradictory path conditions, or field-wise equal stores -/
macro "agree_leaf" : tactic =>
  `(tactic| (first | rfl | (exfalso; omega) | (simp [*] <;> omega) | (simp_all; done) | (exfalso; simp_all; done)
                   | (congr 1; simp <;> omega) | (congr 2 <;> (first | omega | (simp <;> omega)))
                   | (congr 3 <;> (first | omega | (simp <;> omega))) | grind))

/-- `consume`: what the caller sees (store afterwards, returned bool or the observer's exception). -/
theorem c04_translation_agrees_consume (s : Store) (cost : Nat) (cur : Cur) (d : Bool) (p : Nat) :
    consumeT cls obs s cost cur d p = ((consumeO cls obs s cost cur d p).1, (consumeO cls obs s cost cur d p).2.1) := by
  rw [consumeO_proj]
  unfold consumeT consumeCore debtPath
  dsimp only
  simp only [apply_ite (consumeFin cls obs)]
  cases cur <;>
    simp only [consumeFin, Branch.success, Store.bal, Store.setBal, charge, refuse, record,
      reduceIte, Bool.false_eq_true, reduceCtorEq, true_and, false_and, and_true, and_false, gt_iff_lt, ge_iff_le]
  all_goals (try (repeat' split))
  all_goals (try agree_leaf)

theorem c04_translation_agrees_regenerate (s : Store) (n : Nat) (cur : Cur) :
    regenerateT cls obs s n cur = regenerateO cls obs s n cur := by
  unfold regenerateT regenerateO regenCore
  cases cur <;> simp only [Store.bal, Store.cap, Store.setBal, reduceCtorEq, and_true, and_false, gt_iff_lt, reduceIte]
  all_goals (try (repeat' split))
  all_goals (try agree_leaf)

/-- first half of `transfer_to` (the `with self._lock:` block) -/
theorem c04_translation_agrees_transfer_withdraw (s : Store) (n : Nat) (cur : Cur) :
    transferWithdrawT s n cur = withdraw s n cur := by
  unfold transferWithdrawT withdraw
  cases cur <;> simp only [Store.bal, Store.setBal, reduceCtorEq, reduceIte]
  all_goals (try (repeat' split))
  all_goals (try agree_leaf)

/-- second half of `transfer_to`: `other.regenerate(amount, energy_type)` on the peer, then `return True` -/
theorem c04_translation_agrees_transfer_deposit (s : Store) (n : Nat) (cur : Cur) :
    transferDepositT cls obs s n cur = depositO cls obs s n cur := by
  unfold transferDepositT depositO
  exact c04_translation_agrees_regenerate cls obs s n cur

theorem c04_translation_agrees_convert (s : Store) (n : Nat) : convertT s n = convert s n := by
  unfold convertT convert
  simp only [gt_iff_lt]
  all_goals (try (repeat' split))
  all_goals (try agree_leaf)

theorem c04_translation_agrees_enter_dormancy (s : Store) : enterDormancyT s = enterDormancy s := by
  unfold enterDormancyT enterDormancy; rfl

theorem c04_translation_agrees_exit_dormancy (s : Store) : exitDormancyT cls obs s = exitDormancyO cls obs s := by
  unfold exitDormancyT exitDormancyO; rfl

theorem c04_translation_agrees_apply_debt_interest (s : Store) : applyInterestT s = applyInterest s := by
  unfold applyInterestT applyInterest interestAmount
  simp only [gt_iff_lt]
  all_goals (try (split <;> simp))

theorem c04_translation_agrees_reset (s : Store) : resetT cls obs s = resetO cls obs s := by
  unfold resetT resetO resetCore; rfl

end Translation

/-! ### the classifier's constants (extracted from the source on every run) -/

/-- The metabolic-state classifier of the current source is the one the driver computes: debt weight 1/2 and the chain `ratio <= 1/10 → starving, <= 3/10 → conserving, >= 9/10 → feasting, else normal`
    — the VALUES the source's expressions evaluate to, however they are spelled (`Operon.Gen.Metabolism`, regenerated by extractor E5-metabolism).  No ledger theorem
    depends on these (they hold for every classifier); this pins the float side of the correspondence by name. -/
theorem c04_classifier_constants_table :
    Gen.Metabolism.debtWeight = some (1, 2) ∧
    Gen.Metabolism.chain = [("le", (1, 10), "starving"), ("le", (3, 10), "conserving"), ("ge", (9, 10), "feasting")] ∧
    Gen.Metabolism.elseState = "normal" := by decide

/-- **The division guards of `_update_state` are those of the source.**  Which of the two true divisions of
    `_update_state` run only with a non-zero capacity is read from the `if` tests enclosing them in the source on every
    run (`Operon.Gen.Metabolism.updGuards`, extractor E5-metabolism; an unrecognised shape is `none`): both are guarded. -/
theorem c04_update_state_guards_table : Gen.Metabolism.updGuards = some (true, true) := by decide

/-- … and the model's `_update_state` (`updateStateO`, on which "no operation raises" rests) is the guard-parametric
    function at exactly the guards read from the source: removing a guard from the source (re-introducing the fixed
    defect C04-zero-capacity-zerodivision) changes `updGuards` and breaks this theorem and the table by name. -/
theorem c04_update_state_is_the_guarded_source (obs : Obs) (s : Store) :
    updateStateG (Gen.Metabolism.updGuards.getD (false, false)) cls obs s = updateStateO cls obs s := by
  rw [c04_update_state_guards_table]
  unfold updateStateG updateStateO
  simp

/-- **Witness for the unguarded shape** (the tree before fix 1c68cff: `if self._debt > 0:` without `and total_capacity >
    0`): on a zero-capacity store that owes 3 units `_update_state` raises `ZeroDivisionError` — with the debt already
    booked by the caller.  So "no operation raises" genuinely depends on the guards. -/
theorem c04_unguarded_debt_division_raises_witness :
    retUnit (updateStateG (true, false) (fun _ _ => .normal) Obs.silent
      { Store.fresh 0 0 0 5 1 10 with debt := 3 }).2 = .raised .zeroDivision ∧
    retUnit (updateStateG (false, true) (fun _ _ => .normal) Obs.silent (Store.fresh 0 0 0 0 1 10)).2 = .raised .zeroDivision ∧
    retUnit (updateStateG (true, true) (fun _ _ => .normal) Obs.silent
      { Store.fresh 0 0 0 5 1 10 with debt := 3 }).2 = .none := by
  decide

/-- **Console output cannot interrupt an operation** (default configuration `silent=False`): evaluated on the real
    class on every run — every message-producing path of a loud store, on an ASCII console, a closed console and a
    UTF-8 console with a lone surrogate in the caller's operation label — no call raises
    (`Operon.Gen.Metabolism.consoleFailuresEscape`; fixed defect C04-console-print-interrupts-ledger).  This is a
    complete evaluation of a finite script, not a proof about consoles; it is what justifies that the model has no
    console and that the translator reads `print(...)` as a no-op. -/
theorem c04_console_is_best_effort_table : Gen.Metabolism.consoleFailuresEscape = false := by decide

/-- the public view of a store, as `Operon.Gen.Metabolism.constructorProbe` records it -/
private def stateName : MState → String
  | .normal => "normal" | .conserving => "conserving" | .starving => "starving" | .feasting => "feasting" | .dormant => "dormant"

private def probeAgrees (r : (Nat × Nat × Nat × Nat) × (Nat × Nat × Nat × Nat × Nat × Nat × Nat × Nat) × String ×
    (Nat × Nat × Nat × Nat × Nat)) : Bool :=
  let s := Store.fresh r.1.1 r.1.2.1 r.1.2.2.1 r.1.2.2.2 1 10
  let v := r.2.1
  let c := r.2.2.2
  s.atp == (v.1 : Int) && s.gtp == (v.2.1 : Int) && s.nadh == (v.2.2.1 : Int) && s.maxAtp == (v.2.2.2.1 : Int)
    && s.maxGtp == (v.2.2.2.2.1 : Int) && s.maxNadh == (v.2.2.2.2.2.1 : Int) && s.debt == (v.2.2.2.2.2.2.1 : Int)
    && s.maxDebt == (v.2.2.2.2.2.2.2 : Int) && stateName s.state == r.2.2.1
    && s.consumed == (c.1 : Int) && s.regenerated == (c.2.1 : Int) && s.ops == c.2.2.1 && s.failed == c.2.2.2.1
    && s.ntx == c.2.2.2.2

/-- **The constructor is `Store.fresh`**: evaluated on the real class on every run - for every combination of budget, GTP
    budget, NADH reserve and debt limit from {0, 1, 7} (81 stores, zero capacities included) what the public getters report
    right after construction (balances, capacities = the budgets, debt 0, the limit, state NORMAL without an `_update_state`,
    all counters 0, an empty transaction log) is the model's fresh store.  A finite evaluation (the general statement rests on
    the correspondence); it is what ties the one operation the translator does not read - `__init__` - to the model by name. -/
theorem c04_constructor_table_agrees_with_model :
    (match Gen.Metabolism.constructorProbe with
     | some t => t.length == 81 && t.all probeAgrees
     | none => false) = true := by decide

/-- **Quantities beyond the float range cannot interrupt an operation** (Python ints are unbounded, the fill level of
    `_update_state` and the interest of `apply_debt_interest` are float computations): evaluated on the real class on every
    run — stores with a budget / NADH reserve / debt limit of 10^310, quotients debt/capacity and current/capacity beyond
    2^1024, a debt no float can hold, through consume, regenerate, dormancy, interest, convert, transfer, reset — no call
    raises (`Operon.Gen.Metabolism.floatRangeFailuresEscape`; fixed defect C04-float-range-overflow-after-booking).  A
    complete evaluation of a finite script, not a proof about floats; it is what justifies that the model's true
    divisions raise only on a zero denominator (`pyDiv`) and that its interest is exact integer arithmetic. -/
theorem c04_float_range_is_handled_table : Gen.Metabolism.floatRangeFailuresEscape = false := by decide

/-! ### Non-vacuity: concrete stores and histories meeting the hypotheses -/

/-- a classifier to compute with -/
private def cN : Classifier := fun _ _ => .normal

/-- `c04_success_charges_exactly`: the former overcharge case — budget 5, NADH 3, `consume(10, allow_debt=True)`
    succeeds (top-up then debt) … -/
example : retBool (consume cN (Store.fresh 5 0 3 100 1 10) 10 .atp true 0).2.1 = .bool true := by decide
/-- … and removes exactly 10 (it removed 13 before the repair). -/
example : (consume cN (Store.fresh 5 0 3 100 1 10) 10 .atp true 0).1.worth = 8 - 10 := by decide
/-- debt in the NADH currency succeeds and empties the NADH balance -/
example : (consume cN (Store.fresh 10 0 3 100 1 10) 4 .nadh true 0).2.2 = .debt false ∧
    (consume cN (Store.fresh 10 0 3 100 1 10) 4 .nadh true 0).1.nadh = 0 ∧
    (consume cN (Store.fresh 10 0 3 100 1 10) 4 .nadh true 0).1.debt = 1 := by decide
/-- `c04_failure_is_free`: a refused spend that had already topped ATP up from NADH -/
example : (consume cN (Store.fresh 5 0 3 0 1 10) 10 .atp true 0).2.2 = .refused true ∧
    retBool (consume cN (Store.fresh 5 0 3 0 1 10) 10 .atp true 0).2.1 = .bool false := by decide
/-- `c04_consume_returns_bool` / `c04_no_raise`: the former ZeroDivisionError case (zero capacity, debt) -/
example : (step cN (noObs 0) [Store.fresh 0 0 0 5 1 10] (.consume 0 3 .atp true 0)).2 = .bool true := by decide
/-- `Sys.WF`, `debt ≤ maxDebt`, no-inflow and positive-cost hypotheses hold for a fresh two-store colony and
    a history with spends, a transfer, a conversion and interest … -/
private def sys0 : Sys := [Store.fresh 5 0 3 10 1 2, Store.fresh 0 0 0 5 1 2]
private def ops0 : List Op :=
  [.consume 0 7 .atp true 5, .transfer 0 1 1 .nadh, .consume 1 3 .atp true 10, .interest 1, .convert 0 2,
   .consume 0 9 .atp true 10, .consume 0 9 .atp true 10]
example : Sys.WF sys0 := by
  intro i s h
  match i, h with
  | 0, h => simp [sys0] at h; subst h; exact fresh_wf ..
  | 1, h => simp [sys0] at h; subst h; exact fresh_wf ..
  | k + 2, h => simp [sys0] at h
example : ∀ op ∈ ops0, op.inflow = false := by decide
example : ∀ op ∈ ops0, ∀ i cost cur d p, op = .consume i cost cur d p → 1 ≤ cost := by
  intro op h; simp only [ops0, List.mem_cons, List.not_mem_nil, or_false] at h
  rcases h with rfl | rfl | rfl | rfl | rfl | rfl | rfl <;> intro i cost cur d p e <;> cases e <;> decide
/-- … in which spends succeed, interest accrues (store 1: limit 5, debt 3 + interest 1) and the
    last spend is refused: 7 + 3 + 9 = 19 spent of a room of 5 + 3 + 10 + 5 = 23. -/
example : (run cN noObs 0 sys0 ops0).2 =
    [.bool true, .bool true, .bool true, .none, .int 0, .bool true, .bool false] := by decide
example : accrued cN noObs 1 0 sys0 ops0 = 1 ∧ ((run cN noObs 0 sys0 ops0).1.map Store.debt) = [9, 4] := by decide
example : spentOf ops0 (run cN noObs 0 sys0 ops0).2 = 19 ∧ sumOf Store.room sys0 = 23 := by decide
/-- `AllConsumesSucceed` is satisfiable (a prefix of the history above) and fails once the money is gone -/
example : AllConsumesSucceed (ops0.take 6) (run cN noObs 0 sys0 (ops0.take 6)).2 := by decide
example : ¬ AllConsumesSucceed ops0 (run cN noObs 0 sys0 ops0).2 := by decide
/-- `c04_pay_loop_halts`: paying 4 per round from the colony above (room 23) with a body that converts and charges
    interest stops after 4 rounds, well before the fuel (100) runs out; with too little fuel it is the fuel that ends it -/
example : payLoop cN noObs 0 4 .atp true 10 [.convert 0 1, .interest 0] 100 0 sys0 = (4, true) ∧
    payLoop cN noObs 0 4 .atp true 10 [.convert 0 1, .interest 0] 2 0 sys0 = (2, false) := by decide
/-- `c04_failed_transfer_is_free`: a refused transfer exists -/
example : (step cN (noObs 0) sys0 (.transfer 1 0 1 .atp)).2 = .bool false := by decide
/-- `c04_gtp_nadh_stay_within_capacity`: `Sys.Within` holds for every constructed colony -/
example : Sys.Within sys0 := by
  intro i s h
  match i, h with
  | 0, h => simp [sys0] at h; subst h; exact fresh_within ..
  | 1, h => simp [sys0] at h; subst h; exact fresh_within ..
  | k + 2, h => simp [sys0] at h
/-- `c04_regenerate_within_capacity`: hypothesis met, and the clamp is exercised (10 + 7 clamps to 12 … -/
example : ((regenerate cN { Store.fresh 12 0 0 0 1 10 with atp := 10 } 7 .atp).1.atp) = 12 := by decide
/-- … while a balance that a refused top-up left above capacity is pulled back, never pushed further). -/
example : (consume cN (Store.fresh 5 0 3 0 1 10) 10 .atp false 0).1.atp = 8 ∧
    (regenerate cN (consume cN (Store.fresh 5 0 3 0 1 10) 10 .atp false 0).1 1 .atp).1.atp = 5 := by decide

/-- a classifier that changes state (starving as soon as ATP+GTP is empty) and an observer that raises on it -/
private def cS : Classifier := fun r _ => match r with | some q => if q.num = 0 then .starving else .normal | none => .starving
private def oRaise : Obs := fun st => if st = .starving then some 7 else none
/-- `c04_interrupted_spend_charged_exactly` / `c04_raises_only_what_observer_raised`: spending the last 5 ATP turns
    the store STARVING, the observer raises, the call raises — with the state written and exactly 5 charged -/
example : retBool (consumeO cS oRaise (Store.fresh 5 0 0 0 1 10) 5 .atp false 0).2.1 = .raised (.observer 7) ∧
    (consumeO cS oRaise (Store.fresh 5 0 0 0 1 10) 5 .atp false 0).1.atp = 0 ∧
    (consumeO cS oRaise (Store.fresh 5 0 0 0 1 10) 5 .atp false 0).1.state = .starving ∧
    (consumeO cS oRaise (Store.fresh 5 0 0 0 1 10) 5 .atp false 0).1.consumed = 5 := by decide
/-- the observer is not consulted when the state does not change (4 of 5 ATP: still NORMAL) -/
example : retBool (consumeO cS (fun _ => some 1) (Store.fresh 5 0 0 0 1 10) 4 .atp false 0).2.1 = .bool true := by decide
/-- a transfer whose deposit is interrupted by the peer's observer raises after the withdrawal: energy is lost in
    flight, never created (`c04_transfer_never_creates` with a raising observer) -/
example : (step cS (fun _ => fun st => if st = .normal then some 3 else none)
      [Store.fresh 5 0 0 0 1 10, { Store.fresh 4 0 0 0 1 10 with atp := 0, state := .starving }]
      (.transfer 0 1 2 .atp)).2 = .raised (.observer 3) := by decide

/-- overlapping calls: a transfer of the whole balance races a spend of the whole balance (store 0 holds 10 ATP, the peer
    has room): whichever point the transfer is preempted at, exactly one of the two is paid and nothing goes below zero -/
private def sysR : Sys := [Store.fresh 10 0 0 0 1 10, { Store.fresh 10 0 0 0 1 10 with atp := 0 }]
example : (race cN (noObs 0) (noObs 0) sysR 1 (.transfer 0 1 10 .atp) (.consume 0 10 .atp false 10)).2 = (.bool false, .bool true) ∧
    ((race cN (noObs 0) (noObs 0) sysR 1 (.transfer 0 1 10 .atp) (.consume 0 10 .atp false 10)).1.map Store.atp) = [0, 0] := by decide
example : (race cN (noObs 0) (noObs 0) sysR 2 (.transfer 0 1 10 .atp) (.consume 0 10 .atp false 10)).2 = (.bool true, .bool false) ∧
    ((race cN (noObs 0) (noObs 0) sysR 2 (.transfer 0 1 10 .atp) (.consume 0 10 .atp false 10)).1.map Store.atp) = [0, 10] := by decide

end Operon.Atp
