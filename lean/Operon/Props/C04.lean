import Operon.Model.Atp
/-! # C04 — energy ledger (work in progress) -/
namespace Operon.Atp

/-- regression of the top-up-then-debt overcharge: budget 5, NADH 3, `consume(10, allow_debt=True)` removes 10 -/
theorem c04_topup_then_debt_regression :
    let s := Store.fresh 5 0 3 100 1 10
    ((consumeCore s 10 .atp true 0).2.success = true) ∧ (consumeCore s 10 .atp true 0).1.worth = s.worth - 10 := by
  decide

end Operon.Atp
