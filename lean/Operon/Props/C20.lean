import Operon.Lemmas.C20
import Operon.Gen.GenomeTranslated
import Operon.Gen.GenomeTables
/-!
# C20 — immutable configuration: values change only through authorised, logged mutations

Property theorems only.  Model: `Operon/Model/Genome.lean` (hand-written; tied to
`operon_ai/state/genome.py` by the differential correspondence of `harness/vf/props/c20.py`).

Quantification.  `env : Env ν` is the environment: `env.adv` is the approval callback — an ARBITRARY function of
(callback object, global call number, gene, original value, new value, reason) that approves, refuses or
raises — and `env.rnd` the random draws of `replicate`.  `st : Store ν` is any lineage (parents and children,
any number of genomes), `ops : List (Op ν)` any history of `new / add_gene / mutate / rollback_mutation /
set_expression / replicate / express / get_value` calls on any of its genomes, of any length.  Values are an
arbitrary type `ν`.

Public attributes.  `allow_mutations`, `on_mutation` and `mutation_rate` are public and may be re-assigned on a live
genome (`Op.assign`, "bootstrap open, then lock").  "Unless mutations are enabled or an approval callback approves" is
therefore judged by the settings IN FORCE AT THE MOMENT OF EACH CALL: `CallsUnder env G i st ops` says that whenever
the history `ops` calls `add_gene` / `mutate` / `rollback_mutation` on genome `i`, that genome's settings at that moment
lie in the set `G`; `Unauth env` is the set of settings that authorise nothing (mutations disabled, callback — if any —
never approving).  Histories without assignments are the special case `c20_fixed_gate_calls_under_initial_settings`.

Readings fixed in DESIGN.md: "re-adding a gene" = `add_gene` with a name the genome already has (`ReAdds`);
"stored value" = what `get_gene` / `export` show (`findGene`, `table`); the hash is `H (canon g)` for an
injective `H` — `c20_hash_eq_iff` states what the injectivity assumption buys, every other theorem speaks
about `canon`/`table`/`genes` directly and therefore holds for every `H`.
-/
namespace Operon.Genome

variable {ν : Type}

/-! ## Clause 1 — without authorisation nothing changes -/

/-- **No authorisation, no change.**  Take any genome `g` of any lineage and ANY history of operations on it, on
    its children and on every other genome — re-adding genes, mutating, rolling back, changing expression,
    replicating, expressing, re-assigning the public gate attributes — such that at every moment one of its
    `add_gene` / `mutate` / `rollback_mutation` is called, mutations are disabled on it and the approval callback it
    has then (if any) never approves.  Its gene table stays literally the same list (names, values, types, order),
    hence so do its name→value map, the canonical list and its hash under every hash function. -/
theorem c20_unauthorised_history_changes_nothing (env : Env ν) (st : Store ν) (i : Nat) (g : Genome ν)
    (ops : List (Op ν)) (hi : st.genomes[i]? = some g) (hcu : CallsUnder env (Unauth env) i st ops)
    (hre : ReAdds env i st ops) :
    ∃ g', (run env st ops).genomes[i]? = some g' ∧ g'.genes = g.genes ∧ table g' = table g ∧
      canon g' = canon g ∧ ∀ {η : Type} (H : List (Nat × ν) → η), hash H g' = hash H g := by
  obtain ⟨g', h, hg⟩ := run_unauthorised ops hi hcu hre
  refine ⟨g', h, hg, ?_, ?_, ?_⟩
  · simp [table, hg]
  · simp [canon, table, hg]
  · intro η H; simp [hash, canon, table, hg]

/-- **Approval is per gene.**  If, whenever the history calls a mutating method on the genome, mutations are
    disabled and the callback then installed never approves a change of gene `n`, that gene keeps its whole record
    (value, type, flags) — whatever is approved for other genes, whatever is assigned to the gate attributes in
    between, and even if fresh genes are added. -/
theorem c20_unapproved_gene_keeps_its_record (env : Env ν) (st : Store ν) (i : Nat) (g : Genome ν)
    (ops : List (Op ν)) (hi : st.genomes[i]? = some g) (n : Nat) (x : Gene ν)
    (hx : findGene g.genes n = some x)
    (hcu : CallsUnder env (fun a cb => a = false ∧ ∀ c, cb = some c → ∀ k o v r, env.adv c k n o v r ≠ .approve)
      i st ops) :
    ∃ g', (run env st ops).genomes[i]? = some g' ∧ findGene g'.genes n = some x := by
  obtain ⟨g', h, ev⟩ := run_evolves env _ ops st i g hi hcu
  obtain ⟨s, -, hauth, hgenes⟩ := ev.main
  refine ⟨g', h, ?_⟩
  have hl : lastNew s n = none := by
    unfold lastNew
    cases hla : lastApproved s n with
    | none => rfl
    | some m =>
      exfalso
      obtain ⟨hm, hg, ha⟩ := lastApproved_some_mem hla
      obtain ⟨a, cb, ⟨hal, hnn⟩, h' | ⟨c, k, hc, hadv⟩⟩ := hauth m hm ha
      · rw [hal] at h'; cases h'
      · rw [hg] at hadv; exact hnn c hc _ _ _ _ hadv
  have := hgenes (Or.inr fun a c hG => hG.1) n x hx
  rw [hl] at this
  simpa using this

/-- **Approval is per value** ("approves the specific change").  Let `G` be any set of gate settings with
    mutations disabled, and let every mutating call of the history happen under a setting in `G`.  Then every gene
    that was present is still present with the same record, and its stored value is either the original one or a
    value `w` for which a callback that was installed at such a moment answered `approve` to a request to set
    exactly this gene to exactly `w`. -/
theorem c20_stored_value_is_original_or_approved (env : Env ν) (G : Bool → Option Nat → Prop)
    (hG : ∀ a c, G a c → a = false) (st : Store ν) (i : Nat) (g : Genome ν)
    (ops : List (Op ν)) (hi : st.genomes[i]? = some g) (hcu : CallsUnder env G i st ops) (n : Nat) (x : Gene ν)
    (hx : findGene g.genes n = some x) :
    ∃ g' w, (run env st ops).genomes[i]? = some g' ∧ findGene g'.genes n = some { x with value := w } ∧
      (w = x.value ∨ ∃ a c k o r, G a (some c) ∧ env.adv c k n o w r = .approve) := by
  obtain ⟨g', h, ev⟩ := run_evolves env G ops st i g hi hcu
  obtain ⟨s, -, hauth, hgenes⟩ := ev.main
  refine ⟨g', (lastNew s n).getD x.value, h, hgenes (Or.inr hG) n x hx, ?_⟩
  unfold lastNew
  cases hla : lastApproved s n with
  | none => left; rfl
  | some m =>
    right
    obtain ⟨hm, hg, ha⟩ := lastApproved_some_mem hla
    obtain ⟨a, cb, hGa, h' | ⟨c, k, hc, hadv⟩⟩ := hauth m hm ha
    · rw [hG a cb hGa] at h'; cases h'
    · subst hc; exact ⟨a, c, k, m.orig, m.reason, hGa, by simpa [hg] using hadv⟩

/-- **Changes are logged, and each is judged by the settings in force when it was made** (the title of the
    property).  Let every mutating call of the history on genome `i` happen under gate settings in `G` (any set;
    `fun _ _ => True` is allowed).  Then the log only grows; every approved entry added was let through by a setting
    in `G` — mutations enabled, or the callback installed then approved exactly this gene / old value / new value —;
    and, if all settings in `G` have mutations disabled, the stored value of every gene is exactly the value written
    by the last approved entry added for it, or the original value if there is none. -/
theorem c20_value_is_last_approved_logged_value (env : Env ν) (G : Bool → Option Nat → Prop) (st : Store ν)
    (i : Nat) (g : Genome ν) (ops : List (Op ν)) (hi : st.genomes[i]? = some g)
    (hcu : CallsUnder env G i st ops) :
    ∃ g' s, (run env st ops).genomes[i]? = some g' ∧ g'.log = g.log ++ s ∧
      (∀ m ∈ s, m.approved = true → ∃ a c, G a c ∧ AuthBy env a c m) ∧
      ((∀ a c, G a c → a = false) → ∀ n x, findGene g.genes n = some x →
        findGene g'.genes n = some { x with value := (lastNew s n).getD x.value }) := by
  obtain ⟨g', h, ev⟩ := run_evolves env G ops st i g hi hcu
  obtain ⟨s, hl, hauth, hgenes⟩ := ev.main
  exact ⟨g', s, h, hl, hauth, fun hal => hgenes (Or.inr hal)⟩

/-- No method ever changes the gate settings: over any history that does not itself ASSIGN to the public attributes
    of genome `i`, its `allow_mutations`, `on_mutation` and `mutation_rate` stay what they were (no history turns
    mutations on or swaps the callback behind the user's back). -/
theorem c20_gate_changes_only_by_assignment (env : Env ν) (st : Store ν) (i : Nat) (g : Genome ν)
    (ops : List (Op ν)) (hi : st.genomes[i]? = some g) (hna : NoAssign i ops) :
    ∃ g', (run env st ops).genomes[i]? = some g' ∧ g'.allow = g.allow ∧ g'.cb = g.cb ∧ g'.rate = g.rate :=
  run_gate_fixed env ops st i g hi hna

/-- … and such a history makes all its calls under the settings the genome starts with (this turns every
    `CallsUnder` hypothesis below into a hypothesis on the initial settings when nothing is re-assigned). -/
theorem c20_fixed_gate_calls_under_initial_settings (env : Env ν) (st : Store ν) (i : Nat) (g : Genome ν)
    (ops : List (Op ν)) (hi : st.genomes[i]? = some g) (hna : NoAssign i ops) :
    CallsUnder env (fun a c => a = g.allow ∧ c = g.cb) i st ops :=
  callsUnder_of_noAssign env ops st i g hi hna

/-- **An assignment to a public attribute changes that attribute and nothing else**: gene table, expression
    states, log, generation, parent hash, canonical list (hence the hash) and every other genome are untouched,
    and no callback is called.  From then on every method reads the new setting (`c20_mutate_returns_true_iff_authorised`
    and the other single-call theorems speak about the genome as it is at the moment of the call). -/
theorem c20_assignment_exact (env : Env ν) (st : Store ν) (i : Nat) (a : Assign) (g : Genome ν)
    (hi : st.genomes[i]? = some g) (b : Bool) (c : Option Nat) :
    (step env st (.assign i a)).1.genomes[i]? = some (assign g a) ∧
    (assign g a).genes = g.genes ∧ (assign g a).expr = g.expr ∧ (assign g a).log = g.log ∧
    canon (assign g a) = canon g ∧ (step env st (.assign i a)).1.calls = st.calls ∧
    (∀ j h, j ≠ i → st.genomes[j]? = some h → (step env st (.assign i a)).1.genomes[j]? = some h) ∧
    (assign g (.allow b)).allow = b ∧ (assign g (.allow b)).cb = g.cb ∧
    (assign g (.cb c)).cb = c ∧ (assign g (.cb c)).allow = g.allow := by
  obtain ⟨h1, h2, h3, -, -⟩ := assign_same g a
  rw [step_assign hi]
  refine ⟨?_, h1, h2, h3, by simp [canon, table, h1], rfl, ?_, rfl, rfl, rfl, rfl⟩
  · simpa using getElem?_set_of_some (i := i) (a := assign g a) hi
  · intro j h hj hh
    have := getElem?_set_of_some (i := i) (a := assign g a) hh
    rw [if_neg (fun e => hj e.symm)] at this
    exact this

/-- **A stored value changes only AT a call that is authorised — by the settings and by the callback's answer to
    exactly that call.**  Take any store (in particular the store reached by any prefix of any history, with its
    callback-call counter `st.calls`) and any single operation after which genome `i` shows something else under gene
    `n` than before.  Then the operation is either an `add_gene` of `n` on `i` (mutations enabled at that moment, or the
    name is new), or a `mutate(n, v)` / the `mutate(n, m.orig, "rollback")` a `rollback_mutation(n)` resolves to, on `i`,
    and at that moment mutations were enabled on `i` or the callback installed on `i` answered `approve` to call number
    `st.calls` — the call this very operation made — asked about exactly (gene `n`, the value stored before, `v`, the
    reason); the gene keeps its record with value `v`, and exactly that approved entry was appended to the log.  (The
    history theorems above speak of "some call"; this one pins the call, also for callbacks whose answers depend on
    the call number.) -/
theorem c20_value_change_needs_exact_approval (env : Env ν) (st : Store ν) (op : Op ν) (i n : Nat) (g g' : Genome ν)
    (hi : st.genomes[i]? = some g) (hi' : (step env st op).1.genomes[i]? = some g')
    (hch : findGene g'.genes n ≠ findGene g.genes n) :
    (∃ x, op = .add i x ∧ x.name = n ∧ (g.allow = true ∨ findGene g.genes n = none)) ∨
    (∃ v r og, findGene g.genes n = some og ∧
      ((op = .mutate i n v ∧ r = .user) ∨
        (op = .rollback i n ∧ r = .rollback ∧ ∃ m, lastApproved g.log n = some m ∧ v = m.orig)) ∧
      (g.allow = true ∨ ∃ c, g.cb = some c ∧ env.adv c st.calls n og.value v r = .approve) ∧
      findGene g'.genes n = some { og with value := v } ∧ g'.log = g.log ++ [⟨n, og.value, v, r, true⟩]) := by
  -- what a `mutate env st.calls g n' v r` that changed gene `n` must have been
  have key : ∀ (n' : Nat) (v : ν) (r : Reason) (g₁ : Genome ν) (b : Bool) (k : Nat),
      mutate env st.calls g n' v r = .done g₁ b k → findGene g₁.genes n ≠ findGene g.genes n →
      n' = n ∧ ∃ og, findGene g.genes n = some og ∧
        (g.allow = true ∨ ∃ c, g.cb = some c ∧ env.adv c st.calls n og.value v r = .approve) ∧
        findGene g₁.genes n = some { og with value := v } ∧ g₁.log = g.log ++ [⟨n, og.value, v, r, true⟩] := by
    intro n' v r g₁ b k hm hne
    have happ : ∀ og, findGene g.genes n' = some og → g₁ = applyMut g og n' v r →
        (g.allow = true ∨ ∃ c, g.cb = some c ∧ env.adv c st.calls n' og.value v r = .approve) →
        n' = n ∧ ∃ og, findGene g.genes n = some og ∧
          (g.allow = true ∨ ∃ c, g.cb = some c ∧ env.adv c st.calls n og.value v r = .approve) ∧
          findGene g₁.genes n = some { og with value := v } ∧ g₁.log = g.log ++ [⟨n, og.value, v, r, true⟩] := by
      intro og hf hg hauth
      have hname := findGene_some_name hf
      have hnn : n' = n := by
        by_cases h : n = n'
        · exact h.symm
        · exfalso; apply hne; rw [hg]; simp only [applyMut]
          rw [findGene_putGene_other]; simpa [hname] using h
      subst hnn
      refine ⟨rfl, og, hf, hauth, ?_, by rw [hg]; rfl⟩
      rw [hg]; simpa [applyMut, hname] using findGene_putGene_same g.genes { og with value := v }
    rcases mutate_cases env st.calls g n' v r with ⟨-, e⟩ | ⟨og, hf, ⟨hal, e⟩ | ⟨-, -, e⟩ |
      ⟨c, -, hcb, ⟨ha, e⟩ | ⟨-, e⟩ | ⟨-, e⟩⟩⟩
    · rw [e] at hm; cases hm; exact absurd rfl hne
    · rw [e] at hm; cases hm; exact happ og hf rfl (Or.inl hal)
    · rw [e] at hm; cases hm; exact absurd rfl hne
    · rw [e] at hm; cases hm; exact happ og hf rfl (Or.inr ⟨c, hcb, ha⟩)
    · rw [e] at hm; cases hm; exact absurd rfl hne
    · rw [e] at hm; cases hm
  by_cases hmu : op.mutator = some i
  · cases op with
    | add i' x =>
      simp only [Op.mutator, Option.some.injEq] at hmu; subst hmu
      rw [step_add hi] at hi'
      have hs := getElem?_set_of_some (i := i') (a := (addGene g x).1) hi
      rw [if_pos rfl] at hs
      simp only at hi'; rw [hs] at hi'; cases hi'
      left
      rcases addGene_cases g x with ⟨h1, -, -⟩ | ⟨h1, -⟩
      · rw [h1] at hch; exact absurd rfl hch
      · rw [h1] at hch
        have hxn : x.name = n := by
          by_cases h : n = x.name
          · exact h.symm
          · exfalso; apply hch; exact findGene_putGene_other _ _ h
        refine ⟨x, rfl, hxn, ?_⟩
        subst hxn
        cases hal : g.allow with
        | true => exact Or.inl rfl
        | false =>
          right
          cases hf : findGene g.genes x.name with
          | none => rfl
          | some y =>
            exfalso; apply hch
            rw [← h1, addGene_refused hal hf]; rfl
    | mutate i' n' v =>
      simp only [Op.mutator, Option.some.injEq] at hmu; subst hmu
      cases hm : mutate env st.calls g n' v .user with
      | raised k => rw [step_mutate_raised hi hm] at hi'; rw [hi] at hi'; cases hi'; exact absurd rfl hch
      | done g₁ b k =>
        rw [step_mutate_done hi hm] at hi'
        have hs := getElem?_set_of_some (i := i') (a := g₁) hi
        rw [if_pos rfl] at hs
        simp only at hi'; rw [hs] at hi'; cases hi'
        obtain ⟨rfl, og, hf, hauth, hv, hl⟩ := key n' v .user g' b k hm hch
        exact Or.inr ⟨v, .user, og, hf, Or.inl ⟨rfl, rfl⟩, hauth, hv, hl⟩
    | rollback i' n' =>
      simp only [Op.mutator, Option.some.injEq] at hmu; subst hmu
      cases hla : lastApproved g.log n' with
      | none =>
        have : rollback env st.calls g n' = .done g false st.calls := by unfold rollback; rw [hla]
        rw [step_rollback_done hi this] at hi'
        have hs := getElem?_set_of_some (i := i') (a := g) hi
        rw [if_pos rfl] at hs
        simp only at hi'; rw [hs] at hi'; cases hi'; exact absurd rfl hch
      | some m =>
        have hrb : rollback env st.calls g n' = mutate env st.calls g n' m.orig .rollback := by
          unfold rollback; rw [hla]
        cases hm : mutate env st.calls g n' m.orig .rollback with
        | raised k =>
          rw [step_rollback_raised hi (hrb.trans hm)] at hi'; rw [hi] at hi'; cases hi'; exact absurd rfl hch
        | done g₁ b k =>
          rw [step_rollback_done hi (hrb.trans hm)] at hi'
          have hs := getElem?_set_of_some (i := i') (a := g₁) hi
          rw [if_pos rfl] at hs
          simp only at hi'; rw [hs] at hi'; cases hi'
          obtain ⟨rfl, og, hf, hauth, hv, hl⟩ := key n' m.orig .rollback g' b k hm hch
          exact Or.inr ⟨m.orig, .rollback, og, hf, Or.inr ⟨rfl, rfl, m, hla, rfl⟩, hauth, hv, hl⟩
    | setExpr _ _ _ => simp [Op.mutator] at hmu
    | assign _ _ => simp [Op.mutator] at hmu
    | new _ _ _ _ => simp [Op.mutator] at hmu
    | replicate _ _ _ => simp [Op.mutator] at hmu
    | express _ _ => simp [Op.mutator] at hmu
    | getValue _ _ => simp [Op.mutator] at hmu
    | validate _ => simp [Op.mutator] at hmu
    | listGenes _ => simp [Op.mutator] at hmu
    | diff _ _ => simp [Op.mutator] at hmu
    | stats _ => simp [Op.mutator] at hmu
  · obtain ⟨g'', h'', -, -, -, hsame⟩ := step_frame env st op i g hi
    rw [hi'] at h''; cases h''
    exact absurd (by rw [(hsame hmu).1]) hch

/-- **Over histories: every change of a stored value is pinned to one call of the history.**  If after ANY history
    genome `i` shows something else under gene `n` than before, the history splits as `pre ++ op :: post` such that
    this very `op`, executed in the store reached by `pre` (callback-call counter `(run env st pre).calls`), changed
    what is stored under `n` — and `c20_value_change_needs_exact_approval` applies to that step: it is an `add_gene`
    under `allow_mutations` (or of a new name), or a `mutate` / rollback for which mutations were enabled at that moment
    or the callback installed at that moment answered `approve` to call number `(run env st pre).calls` about exactly
    this gene, the value stored at that moment, and the value written. -/
theorem c20_history_value_change_pins_the_call (env : Env ν) (ops : List (Op ν)) :
    ∀ (st : Store ν) (i n : Nat) (g g' : Genome ν), st.genomes[i]? = some g →
      (run env st ops).genomes[i]? = some g' → findGene g'.genes n ≠ findGene g.genes n →
      ∃ pre op post g₁ g₂, ops = pre ++ op :: post ∧ (run env st pre).genomes[i]? = some g₁ ∧
        (step env (run env st pre) op).1.genomes[i]? = some g₂ ∧ findGene g₂.genes n ≠ findGene g₁.genes n ∧
        ((∃ x, op = .add i x ∧ x.name = n ∧ (g₁.allow = true ∨ findGene g₁.genes n = none)) ∨
         (∃ v r og, findGene g₁.genes n = some og ∧
           ((op = .mutate i n v ∧ r = .user) ∨
             (op = .rollback i n ∧ r = .rollback ∧ ∃ m, lastApproved g₁.log n = some m ∧ v = m.orig)) ∧
           (g₁.allow = true ∨ ∃ c, g₁.cb = some c ∧ env.adv c (run env st pre).calls n og.value v r = .approve) ∧
           findGene g₂.genes n = some { og with value := v } ∧ g₂.log = g₁.log ++ [⟨n, og.value, v, r, true⟩])) := by
  induction ops with
  | nil =>
    intro st i n g g' hi hi' hch
    rw [run_nil, hi] at hi'; cases hi'; exact absurd rfl hch
  | cons op rest ih =>
    intro st i n g g' hi hi' hch
    obtain ⟨g₁, h₁, -, -, -, -⟩ := step_frame env st op i g hi
    by_cases h : findGene g₁.genes n = findGene g.genes n
    · rw [run_cons] at hi'
      obtain ⟨pre, op', post, a, b, hsplit, ha, hb, hne, hex⟩ := ih _ i n g₁ g' h₁ hi' (by rw [h]; exact hch)
      exact ⟨op :: pre, op', post, a, b, by rw [hsplit]; rfl, by rw [run_cons]; exact ha,
        by rw [run_cons]; exact hb, hne, by rw [run_cons]; exact hex⟩
    · exact ⟨[], op, rest, g, g₁, rfl, hi, h₁, h, c20_value_change_needs_exact_approval env st op i n g g₁ hi h₁ h⟩

/-- **The hash changes only if a stored gene changed** — so, by `c20_history_value_change_pins_the_call`, only through
    a call of the history that was an `add_gene` under `allow_mutations` / of a new name or an exactly-approved
    `mutate` / rollback (also when the callback approves SOME changes: no `Unauth` hypothesis here). -/
theorem c20_hash_change_needs_a_gene_change (env : Env ν) (st : Store ν) (hw : WF st) (ops : List (Op ν)) (i : Nat)
    (g g' : Genome ν) (hi : st.genomes[i]? = some g) (hi' : (run env st ops).genomes[i]? = some g')
    (hch : canon g' ≠ canon g) : ∃ n, findGene g'.genes n ≠ findGene g.genes n := by
  apply Classical.byContradiction
  intro hno
  apply hch
  have hw₁ : WFG g := hw g (List.mem_of_getElem? hi)
  have hw₂ : WFG g' := run_wf env ops st hw g' (List.mem_of_getElem? hi')
  rw [canon_eq_iff hw₂ hw₁]
  intro n
  have : findGene g'.genes n = findGene g.genes n := by
    apply Classical.byContradiction
    intro h; exact hno ⟨n, h⟩
  simp [valueOf, this]

/-- In an unauthorised genome no `mutate`, no `rollback_mutation` and no re-`add_gene` ever reports success. -/
theorem c20_unauthorised_calls_never_succeed (env : Env ν) (st : Store ν) (i : Nat) (g : Genome ν)
    (hi : st.genomes[i]? = some g) (hal : g.allow = false) (hna : NeverApproves env g) :
    (∀ n v, (step env st (.mutate i n v)).2 ≠ .ret true) ∧
    (∀ n, (step env st (.rollback i n)).2 ≠ .ret true) ∧
    (∀ x, (findGene g.genes x.name).isSome = true → (step env st (.add i x)).2 = .ret false) := by
  refine ⟨?_, ?_, ?_⟩
  · intro n v
    cases hm : mutate env st.calls g n v .user with
    | raised k => rw [step_mutate_raised hi hm]; simp
    | done g' b k =>
      rw [step_mutate_done hi hm]
      obtain ⟨-, -, -, hb⟩ := mutate_unauthorised hal hna hm
      simp [hb]
  · intro n
    cases hm : rollback env st.calls g n with
    | raised k => rw [step_rollback_raised hi hm]; simp
    | done g' b k =>
      rw [step_rollback_done hi hm]
      obtain ⟨-, -, -, hb⟩ := rollback_unauthorised hal hna hm
      simp [hb]
  · intro x hx
    rw [step_add hi, (addGene_refused_genes hal hx).2]

/-- An operation changes at most the genome it is invoked on (no aliasing between parents, children and
    strangers); `replicate`, `new`, `express` and `get_value` change no existing genome at all. -/
theorem c20_operations_touch_only_their_genome (env : Env ν) (st : Store ν) (op : Op ν) (j : Nat) (g : Genome ν)
    (hj : st.genomes[j]? = some g) (ht : op.target ≠ some j) : (step env st op).1.genomes[j]? = some g := by
  obtain ⟨g', h, -, hfr, -, -⟩ := step_frame env st op j g hj
  rw [h, hfr ht]

/-! ## Clause 2 — every refused attempt is logged as unapproved -/

/-- `mutate` on an existing gene returns `True` exactly when the gate lets it through: mutations enabled, or
    the callback answers `approve` to this very request. -/
theorem c20_mutate_returns_true_iff_authorised (env : Env ν) (st : Store ν) (i n : Nat) (v : ν) (g : Genome ν)
    (og : Gene ν) (hi : st.genomes[i]? = some g) (hf : findGene g.genes n = some og) :
    (step env st (.mutate i n v)).2 = .ret true ↔
      (g.allow = true ∨ ∃ c, g.cb = some c ∧ env.adv c st.calls n og.value v .user = .approve) := by
  rcases mutate_cases env st.calls g n v .user with ⟨hn, -⟩ | ⟨og', hf', ⟨hal, e⟩ | ⟨hal, hcb, e⟩ |
    ⟨c, hal, hcb, ⟨ha, e⟩ | ⟨ha, e⟩ | ⟨ha, e⟩⟩⟩
  · rw [hf] at hn; cases hn
  all_goals (rw [hf] at hf'; cases hf')
  · rw [step_mutate_done hi e]; simp [hal]
  · rw [step_mutate_done hi e]; simp [hal, hcb]
  · rw [step_mutate_done hi e]; simp [hal, hcb, ha]
  · rw [step_mutate_done hi e]; simp [hal, hcb, ha]
  · rw [step_mutate_raised hi e]; simp [hal, hcb, ha]

/-- **A refused `mutate` is logged as unapproved** and changes nothing else: when `mutate` on an existing gene
    returns `False`, the genome afterwards is the genome before with exactly one entry appended to its log —
    this gene, the value it had, the value asked for, `approved = False`. -/
theorem c20_every_refused_mutation_logged_unapproved (env : Env ν) (st : Store ν) (i n : Nat) (v : ν)
    (g : Genome ν) (og : Gene ν) (hi : st.genomes[i]? = some g) (hf : findGene g.genes n = some og)
    (hret : (step env st (.mutate i n v)).2 = .ret false) :
    (step env st (.mutate i n v)).1.genomes[i]? =
      some { g with log := g.log ++ [⟨n, og.value, v, .user, false⟩] } := by
  rcases mutate_cases env st.calls g n v .user with ⟨hn, -⟩ | ⟨og', hf', ⟨hal, e⟩ | ⟨hal, hcb, e⟩ |
    ⟨c, hal, hcb, ⟨ha, e⟩ | ⟨ha, e⟩ | ⟨ha, e⟩⟩⟩
  · rw [hf] at hn; cases hn
  all_goals (rw [hf] at hf'; cases hf')
  · rw [step_mutate_done hi e] at hret; cases hret
  · rw [step_mutate_done hi e]; simpa [refuseMut] using getElem?_set_of_some (i := i) (a := refuseMut g og n v .user) hi
  · rw [step_mutate_done hi e] at hret; cases hret
  · rw [step_mutate_done hi e]; simpa [refuseMut] using getElem?_set_of_some (i := i) (a := refuseMut g og n v .user) hi
  · rw [step_mutate_raised hi e] at hret; cases hret

/-- **However often a refused attempt is repeated, each one is logged and none takes effect.**  On a genome with
    mutations disabled whose callback (if any) answers "refuse" to this change at every call number, `k` calls of
    `mutate(n, v)` in a row — for EVERY `k`, there is no bound — all report `False`, leave the gene table, the expression
    states and the gate settings literally as they were, and the log grows by exactly `k` unapproved entries
    `n: current value → v`: nothing is de-duplicated, summarised, rotated out or cut off. -/
theorem c20_k_refused_attempts_leave_k_log_entries (env : Env ν) (i n : Nat) (v : ν) (og : Gene ν) (k : Nat) :
    ∀ (st : Store ν) (g : Genome ν), st.genomes[i]? = some g → findGene g.genes n = some og → g.allow = false →
      (∀ c, g.cb = some c → ∀ j, env.adv c j n og.value v .user = .refuse) →
      trace env st (List.replicate k (.mutate i n v)) = List.replicate k (.ret false) ∧
      (run env st (List.replicate k (.mutate i n v))).genomes[i]? =
        some { g with log := g.log ++ List.replicate k ⟨n, og.value, v, .user, false⟩ } := by
  induction k with
  | zero => intro st g hi _ _ _; simpa [run, trace] using hi
  | succ k ih =>
    intro st g hi hf hal href
    have hstep : (step env st (.mutate i n v)).2 = .ret false ∧
        (step env st (.mutate i n v)).1.genomes[i]? = some (refuseMut g og n v .user) := by
      rcases mutate_cases env st.calls g n v .user with ⟨hn, -⟩ | ⟨og', hf', ⟨hal', -⟩ | ⟨-, -, e⟩ |
        ⟨c, -, hcb, ⟨ha, -⟩ | ⟨-, e⟩ | ⟨ha, -⟩⟩⟩
      · rw [hf] at hn; cases hn
      all_goals (rw [hf] at hf'; cases hf')
      · rw [hal] at hal'; cases hal'
      · rw [step_mutate_done hi e]
        exact ⟨rfl, by simpa using getElem?_set_of_some (i := i) (a := refuseMut g og n v .user) hi⟩
      · rw [href c hcb st.calls] at ha; cases ha
      · rw [step_mutate_done hi e]
        exact ⟨rfl, by simpa using getElem?_set_of_some (i := i) (a := refuseMut g og n v .user) hi⟩
      · rw [href c hcb st.calls] at ha; cases ha
    obtain ⟨hret, hg1⟩ := hstep
    obtain ⟨ht, hr⟩ := ih (step env st (.mutate i n v)).1 (refuseMut g og n v .user) hg1 hf hal href
    refine ⟨?_, ?_⟩
    · simp only [List.replicate_succ, trace, hret, ht]
    · simp only [List.replicate_succ, run]
      rw [hr]
      simp [refuseMut, List.append_assoc]

/-- non-vacuity: the hypotheses hold of a locked genome without a reviewer; 1001 attempts, 1001 entries -/
example :
    let g : Genome Nat := newGenome false none false [⟨0, 1, .structural, true, .normal⟩]
    (run (gateEnv none) (⟨[g], 0, 0⟩ : Store Nat) (List.replicate 1001 (.mutate 0 0 7))).genomes[0]? =
      some { g with log := g.log ++ List.replicate 1001 ⟨0, 1, 7, .user, false⟩ } :=
  (c20_k_refused_attempts_leave_k_log_entries (gateEnv none) 0 0 7 ⟨0, 1, .structural, true, .normal⟩ 1001 _ _ rfl
    (by decide) (by decide) (by intro c h; exact nomatch h)).2

/-- A callback that raises leaves every genome exactly as it was (the exception propagates to the caller). -/
theorem c20_raising_callback_changes_nothing (env : Env ν) (st : Store ν) (op : Op ν)
    (hr : (step env st op).2 = .raised) : (step env st op).1.genomes = st.genomes := by
  cases op with
  | new _ _ _ _ => simp [step] at hr
  | add i x =>
    cases hi : st.genomes[i]? with
    | none => rw [step_noid rfl hi] at hr; cases hr
    | some g => rw [step_add hi] at hr; cases hr
  | mutate i n v =>
    cases hi : st.genomes[i]? with
    | none => rw [step_noid rfl hi] at hr; cases hr
    | some g =>
      cases hm : mutate env st.calls g n v .user with
      | raised k => rw [step_mutate_raised hi hm]
      | done g' b k => rw [step_mutate_done hi hm] at hr; cases hr
  | rollback i n =>
    cases hi : st.genomes[i]? with
    | none => rw [step_noid rfl hi] at hr; cases hr
    | some g =>
      cases hm : rollback env st.calls g n with
      | raised k => rw [step_rollback_raised hi hm]
      | done g' b k => rw [step_rollback_done hi hm] at hr; cases hr
  | setExpr i n l =>
    cases hi : st.genomes[i]? with
    | none => rw [step_noid rfl hi] at hr; cases hr
    | some g => rw [step_setExpr hi] at hr; cases hr
  | replicate i muts inh =>
    cases hi : st.genomes[i]? with
    | none => rw [step_noid rfl hi] at hr; cases hr
    | some g =>
      cases hm : replicate env st.calls st.draws g muts inh with
      | raised k d => rw [step_replicate_raised hi hm]
      | ok c k d => rw [step_replicate_ok hi hm] at hr; cases hr
  | express i ctx =>
    cases hi : st.genomes[i]? with
    | none => rw [step_noid rfl hi] at hr; cases hr
    | some g => rw [step_express hi] at hr; cases hr
  | getValue i n =>
    cases hi : st.genomes[i]? with
    | none => rw [step_noid rfl hi] at hr; cases hr
    | some g => rw [step_getValue hi] at hr; cases hr
  | validate i => rw [step_query (Or.inl ⟨i, rfl⟩)]
  | listGenes i => rw [step_query (Or.inr (Or.inl ⟨i, rfl⟩))]
  | diff i j => rw [step_query (Or.inr (Or.inr ⟨i, j, rfl⟩))]
  | assign i a =>
    cases hi : st.genomes[i]? with
    | none => rw [step_noid rfl hi] at hr; cases hr
    | some g => rw [step_assign hi] at hr; cases hr
  | stats i => rw [step_stats_store]

/-- **A refused rollback is logged as unapproved**: if the gene has an approved mutation to roll back and
    `rollback_mutation` returns `False`, exactly one unapproved entry (this gene, current value → the value
    the rollback asked for, reason "rollback") is appended and nothing else changes. -/
theorem c20_refused_rollback_logged_unapproved (env : Env ν) (st : Store ν) (i n : Nat) (g : Genome ν)
    (og : Gene ν) (m : Mut ν) (hi : st.genomes[i]? = some g) (hf : findGene g.genes n = some og)
    (hm : lastApproved g.log n = some m) (hret : (step env st (.rollback i n)).2 = .ret false) :
    (step env st (.rollback i n)).1.genomes[i]? =
      some { g with log := g.log ++ [⟨n, og.value, m.orig, .rollback, false⟩] } := by
  have hrb : rollback env st.calls g n = mutate env st.calls g n m.orig .rollback := by
    unfold rollback; rw [hm]
  rcases mutate_cases env st.calls g n m.orig .rollback with ⟨hn, -⟩ | ⟨og', hf', ⟨hal, e⟩ | ⟨hal, hcb, e⟩ |
    ⟨c, hal, hcb, ⟨ha, e⟩ | ⟨ha, e⟩ | ⟨ha, e⟩⟩⟩
  · rw [hf] at hn; cases hn
  all_goals (rw [hf] at hf'; cases hf'; rw [← hrb] at e)
  · rw [step_rollback_done hi e] at hret; cases hret
  · rw [step_rollback_done hi e]
    simpa [refuseMut] using getElem?_set_of_some (i := i) (a := refuseMut g og n m.orig .rollback) hi
  · rw [step_rollback_done hi e] at hret; cases hret
  · rw [step_rollback_done hi e]
    simpa [refuseMut] using getElem?_set_of_some (i := i) (a := refuseMut g og n m.orig .rollback) hi
  · rw [step_rollback_raised hi e] at hret; cases hret

/-- The log is append-only over every history: what was logged stays logged, in order. -/
theorem c20_log_is_append_only (env : Env ν) (st : Store ν) (i : Nat) (g : Genome ν) (ops : List (Op ν))
    (hi : st.genomes[i]? = some g) :
    ∃ g' s, (run env st ops).genomes[i]? = some g' ∧ g'.log = g.log ++ s := by
  obtain ⟨g', h, ev⟩ := run_evolves env _ ops st i g hi (callsUnder_true env i ops st)
  obtain ⟨s, hl, -, -⟩ := ev.main
  exact ⟨g', s, h, hl⟩

/-! ## Clauses 3 and 4 — replication -/

/-- **Replication never alters the parent** — nor any other genome of the lineage: after `replicate` (whether
    it returns a child or the callback raises) every genome that existed is exactly what it was. -/
theorem c20_replicate_preserves_parent (env : Env ν) (st : Store ν) (i : Nat) (muts : List (Nat × ν))
    (inh : Bool) (j : Nat) (g : Genome ν) (hj : st.genomes[j]? = some g) :
    (step env st (.replicate i muts inh)).1.genomes[j]? = some g :=
  c20_operations_touch_only_their_genome env st _ j g hj (by simp [Op.target])

/-- **A child differs from its parent only in authorised mutations.**  When `replicate` returns a child:
    it is a new genome (the next free place in the store), it has the parent's gate settings, remembers the
    parent's hash, has exactly the parent's genes in the parent's order, every gene record equals the
    parent's except possibly for the value, and wherever the value differs the child's own log contains an
    approved entry that wrote exactly that value and that the gate let through (mutations enabled, or the
    callback approved exactly this gene/value request). -/
theorem c20_child_differs_only_in_authorised (env : Env ν) (st : Store ν) (hw : WF st) (i : Nat)
    (muts : List (Nat × ν)) (inh : Bool) (p : Genome ν) (hi : st.genomes[i]? = some p) (id : Nat)
    (hret : (step env st (.replicate i muts inh)).2 = .child id) :
    ∃ c, id = st.genomes.length ∧ (step env st (.replicate i muts inh)).1.genomes[id]? = some c ∧
      c.allow = p.allow ∧ c.cb = p.cb ∧ c.parentHash = some (canon p) ∧ c.generation = p.generation + 1 ∧
      c.genes.map (·.name) = p.genes.map (·.name) ∧
      ∀ n x, findGene p.genes n = some x → ∃ w, findGene c.genes n = some { x with value := w } ∧
        (w = x.value ∨ ∃ m ∈ c.log, m.gene = n ∧ m.new = w ∧ m.approved = true ∧ Authorised env p m) := by
  have hwp : WFG p := hw p (List.mem_of_getElem? hi)
  cases hr : replicate env st.calls st.draws p muts inh with
  | raised k d => rw [step_replicate_raised hi hr] at hret; cases hret
  | ok c k d =>
    rw [step_replicate_ok hi hr] at hret ⊢
    cases hret
    obtain ⟨ev, hnames⟩ := replicate_evolves hr
    obtain ⟨hbg, hbl, hba, hbc, -, hbgen, hbp⟩ := childBase_spec inh hwp
    obtain ⟨s, hl, hauth, hgenes⟩ := ev.main
    rw [hbl, List.nil_append] at hl
    refine ⟨c, rfl, by simp, ev.allow.trans hba, ev.cb.trans hbc, ev.parentHash.trans hbp,
      ev.generation.trans hbgen, by rw [hnames, hbg], ?_⟩
    intro n x hx
    refine ⟨(lastNew s n).getD x.value, hgenes (Or.inl rfl) n x (hbg ▸ hx), ?_⟩
    unfold lastNew
    cases hla : lastApproved s n with
    | none => left; rfl
    | some m =>
      right
      obtain ⟨hm, hg, ha⟩ := lastApproved_some_mem hla
      refine ⟨m, hl ▸ hm, hg, rfl, ha, ?_⟩
      have := hauth m hm ha
      unfold Authorised at this ⊢
      rwa [hba, hbc] at this

/-- **Replicating an unauthorised genome yields an identical configuration.**  With mutations disabled and a
    callback that never approves, whatever mutations `replicate` is asked for (and whatever the random pass
    draws) the child's gene table is the parent's, so child and parent have the same hash; the child is again
    unauthorised, so `c20_unauthorised_history_changes_nothing` applies to it from then on. -/
theorem c20_unauthorised_child_equals_parent (env : Env ν) (st : Store ν) (hw : WF st) (i : Nat)
    (muts : List (Nat × ν)) (inh : Bool) (p : Genome ν) (hi : st.genomes[i]? = some p) (hal : p.allow = false)
    (hna : NeverApproves env p) (id : Nat) (hret : (step env st (.replicate i muts inh)).2 = .child id) :
    ∃ c, (step env st (.replicate i muts inh)).1.genomes[id]? = some c ∧ c.genes = p.genes ∧
      canon c = canon p ∧ c.allow = false ∧ NeverApproves env c := by
  have hwp : WFG p := hw p (List.mem_of_getElem? hi)
  cases hr : replicate env st.calls st.draws p muts inh with
  | raised k d => rw [step_replicate_raised hi hr] at hret; cases hret
  | ok c k d =>
    rw [step_replicate_ok hi hr] at hret ⊢
    cases hret
    obtain ⟨h1, h2, h3⟩ := replicate_unauthorised hwp hal hna hr
    exact ⟨c, by simp, h1, by simp [canon, table, h1], h2, fun c' hc' => hna c' (h3 ▸ hc')⟩

/-- **Parent and child, unauthorised, over time.**  Replicate an unauthorised genome (with any requested
    mutations) and let parent and child live through any further history of re-adds, mutates, rollbacks,
    expression changes, replications, attribute assignments, on them and on anything else, in which their mutating
    methods are only ever called under settings that authorise nothing: at the end both still have exactly the
    gene table, canonical list and hash the parent had before the replication. -/
theorem c20_unauthorised_lineage_keeps_hash (env : Env ν) (st : Store ν) (hw : WF st) (i : Nat)
    (muts : List (Nat × ν)) (inh : Bool) (p : Genome ν) (hi : st.genomes[i]? = some p) (hal : p.allow = false)
    (hna : NeverApproves env p) (id : Nat) (hret : (step env st (.replicate i muts inh)).2 = .child id)
    (ops : List (Op ν))
    (hcp : CallsUnder env (Unauth env) i (step env st (.replicate i muts inh)).1 ops)
    (hcc : CallsUnder env (Unauth env) id (step env st (.replicate i muts inh)).1 ops)
    (hrp : ReAdds env i (step env st (.replicate i muts inh)).1 ops)
    (hrc : ReAdds env id (step env st (.replicate i muts inh)).1 ops) :
    ∃ p' c', (run env (step env st (.replicate i muts inh)).1 ops).genomes[i]? = some p' ∧
      (run env (step env st (.replicate i muts inh)).1 ops).genomes[id]? = some c' ∧
      p'.genes = p.genes ∧ c'.genes = p.genes ∧ canon p' = canon p ∧ canon c' = canon p ∧
      ∀ {η : Type} (H : List (Nat × ν) → η), hash H p' = hash H p ∧ hash H c' = hash H p := by
  obtain ⟨c, hc, hcg, -, -, -⟩ :=
    c20_unauthorised_child_equals_parent env st hw i muts inh p hi hal hna id hret
  have hp1 := c20_replicate_preserves_parent env st i muts inh i p hi
  obtain ⟨p', hp', hpg, -, hpc, -⟩ :=
    c20_unauthorised_history_changes_nothing env _ i p ops hp1 hcp hrp
  obtain ⟨c', hc', hcg', -, hcc, -⟩ :=
    c20_unauthorised_history_changes_nothing env _ id c ops hc hcc hrc
  refine ⟨p', c', hp', hc', hpg, hcg'.trans hcg, hpc, ?_, ?_⟩
  · simp [canon, table, hcg'.trans hcg]
  · intro η H
    exact ⟨by simp [hash, hpc], by simp [hash, canon, table, hcg'.trans hcg]⟩

/-- **Refused replication mutations are logged as unapproved in the child**: every requested mutation that
    names a gene of the parent produces an entry in the child's log, and that entry is approved only if the
    gate let it through.  Conversely the child's log contains nothing but those entries and (when the
    mutation rate is on) the random pass's entries. -/
theorem c20_refused_replication_mutation_logged (env : Env ν) (st : Store ν) (hw : WF st) (i : Nat)
    (muts : List (Nat × ν)) (inh : Bool) (p : Genome ν) (hi : st.genomes[i]? = some p) (id : Nat)
    (hret : (step env st (.replicate i muts inh)).2 = .child id) :
    ∃ c, (step env st (.replicate i muts inh)).1.genomes[id]? = some c ∧
      (∀ q ∈ muts, q.1 ∈ p.genes.map (·.name) →
        ∃ m ∈ c.log, m.gene = q.1 ∧ m.new = q.2 ∧ m.reason = .replication ∧
          (m.approved = true → Authorised env p m)) ∧
      (∀ m ∈ c.log, (m.reason = .replication ∧ (m.gene, m.new) ∈ muts) ∨ (m.reason = .random ∧ p.rate = true)) := by
  have hwp : WFG p := hw p (List.mem_of_getElem? hi)
  cases hr : replicate env st.calls st.draws p muts inh with
  | raised k d => rw [step_replicate_raised hi hr] at hret; cases hret
  | ok c k d =>
    rw [step_replicate_ok hi hr] at hret ⊢
    cases hret
    obtain ⟨ev, -⟩ := replicate_evolves hr
    obtain ⟨-, hbl, hba, hbc, -⟩ := childBase_spec inh hwp
    obtain ⟨s, hl, hauth, -⟩ := ev.main
    rw [hbl, List.nil_append] at hl
    obtain ⟨hall, hex⟩ := replicate_logs hwp hr
    refine ⟨c, by simp, ?_, hall⟩
    intro q hq hqn
    obtain ⟨m, hm, h1, h2, h3⟩ := hex q hq hqn
    refine ⟨m, hm, h1, h2, h3, fun ha => ?_⟩
    have := hauth m (hl ▸ hm) ha
    unfold Authorised at this ⊢
    rwa [hba, hbc] at this

/-- **Lineage, over time.**  After a replication let parent and child live through ANY further history (both
    may be operated on, replicated again, have their gate attributes re-assigned, …).  Let `G` be a set of gate
    settings with mutations disabled that contains the parent's settings at replication and the settings in force
    at every later mutating call on parent or child.  At the end every gene the parent had at replication time is
    still in both, with the same record, and if the two values differ then an approved mutation of that gene was
    logged since — in the child's log or in the part of the parent's log added after the replication — and it was
    let through by a setting in `G` (the callback installed at that moment approved exactly that change). -/
theorem c20_child_differs_only_in_authorised_history (env : Env ν) (G : Bool → Option Nat → Prop)
    (hG : ∀ a c, G a c → a = false) (st : Store ν) (hw : WF st) (i : Nat)
    (muts : List (Nat × ν)) (inh : Bool) (p : Genome ν) (hi : st.genomes[i]? = some p) (hGp : G p.allow p.cb)
    (id : Nat) (hret : (step env st (.replicate i muts inh)).2 = .child id) (ops : List (Op ν))
    (hcp : CallsUnder env G i (step env st (.replicate i muts inh)).1 ops)
    (hcc : CallsUnder env G id (step env st (.replicate i muts inh)).1 ops) :
    ∃ p' c' sp, (run env (step env st (.replicate i muts inh)).1 ops).genomes[i]? = some p' ∧
      (run env (step env st (.replicate i muts inh)).1 ops).genomes[id]? = some c' ∧
      p'.log = p.log ++ sp ∧
      ∀ n x, findGene p.genes n = some x → ∃ wp wc,
        findGene p'.genes n = some { x with value := wp } ∧ findGene c'.genes n = some { x with value := wc } ∧
        (wc = wp ∨ (∃ m ∈ c'.log, m.gene = n ∧ m.approved = true ∧ ∃ a c, G a c ∧ AuthBy env a c m) ∨
          (∃ m ∈ sp, m.gene = n ∧ m.approved = true ∧ ∃ a c, G a c ∧ AuthBy env a c m)) := by
  have hwp : WFG p := hw p (List.mem_of_getElem? hi)
  cases hr : replicate env st.calls st.draws p muts inh with
  | raised k d => rw [step_replicate_raised hi hr] at hret; cases hret
  | ok c k d =>
    have hstep := step_replicate_ok hi hr
    rw [hstep] at hret hcp hcc ⊢
    cases hret
    obtain ⟨ev, -⟩ := replicate_evolves hr
    obtain ⟨hbg, hbl, hba, hbc, -⟩ := childBase_spec inh hwp
    -- the parent and the child after the further history
    have hp1 : (st.genomes ++ [c])[i]? = some p := getElem?_append_of_some _ hi
    have hc1 : (st.genomes ++ [c])[st.genomes.length]? = some c := by simp
    obtain ⟨p', hp', evp⟩ := run_evolves env G ops ⟨st.genomes ++ [c], k, d⟩ i p hp1 hcp
    obtain ⟨c', hc', evc⟩ := run_evolves env G ops ⟨st.genomes ++ [c], k, d⟩ st.genomes.length c hc1 hcc
    have evc' := (ev.weaken.toG (G := G) (by rw [hba, hbc]; exact hGp)).trans evc
    obtain ⟨sp, hlp, hap, hgp⟩ := evp.main
    obtain ⟨sc, hlc, hac, hgc⟩ := evc'.main
    rw [hbl, List.nil_append] at hlc
    refine ⟨p', c', sp, hp', hc', hlp, ?_⟩
    intro n x hx
    refine ⟨_, _, hgp (Or.inr hG) n x hx, hgc (Or.inr hG) n x (hbg ▸ hx), ?_⟩
    unfold lastNew
    cases hlc' : lastApproved sc n with
    | some m =>
      right; left
      obtain ⟨hm, hg, ha⟩ := lastApproved_some_mem hlc'
      exact ⟨m, hlc ▸ hm, hg, ha, hac m hm ha⟩
    | none =>
      cases hlp' : lastApproved sp n with
      | some m =>
        right; right
        obtain ⟨hm, hg, ha⟩ := lastApproved_some_mem hlp'
        exact ⟨m, hm, hg, ha, hap m hm ha⟩
      | none => left; rfl

/-! ## Clause 5 — the expressed configuration -/

/-- **`express` is exact.**  `(n, v)` is in the expressed configuration iff the genome has a gene `n` with
    value `v` that is not silenced, not dormant and — if conditional — named in the context; no name occurs
    twice (it is a dict); and `express` changes nothing. -/
theorem c20_express_exact (g : Genome ν) (hw : WFG g) (ctx : List Nat) :
    (∀ n v, (n, v) ∈ express g ctx ↔
      ∃ x, findGene g.genes n = some x ∧ x.value = v ∧ findLevel g.expr n ≠ some .silenced ∧
        x.gtype ≠ .dormant ∧ (x.gtype = .conditional → n ∈ ctx)) ∧
    ((express g ctx).map (·.1)).Nodup := by
  refine ⟨?_, express_keys_nodup hw ctx⟩
  intro n v
  rw [mem_express_iff hw]
  constructor
  · rintro ⟨x, hf, hv, he⟩
    have hn := findGene_some_name hf
    have := (expressed_iff g ctx x).mp he
    rw [hn] at this
    exact ⟨x, hf, hv, this⟩
  · rintro ⟨x, hf, hv, h⟩
    have hn := findGene_some_name hf
    refine ⟨x, hf, hv, (expressed_iff g ctx x).mpr ?_⟩
    rw [hn]; exact h

/-- In every reachable store every gene has an expression state and vice versa (the two dicts have the same
    keys), so "silenced" is always defined and the `expression is None` branches of `express` / `get_value` are dead. -/
theorem c20_every_gene_has_expression_state (env : Env ν) (ops : List (Op ν)) (g : Genome ν)
    (hg : g ∈ (run env Store.empty ops).genomes) (n : Nat) :
    (findLevel g.expr n).isSome = (findGene g.genes n).isSome := by
  have hk : KeysEq g := run_keysEq env ops _ (by intro g hg; cases hg) g hg
  have h1 := @findLevel_isSome_iff g.expr n
  have h2 := @findGene_isSome_iff ν g.genes n
  rw [hk] at h1
  rw [Bool.eq_iff_iff, h1, h2]

/-- the same at the level of the store: what an `express` call observes, and that it leaves the store alone -/
theorem c20_express_step (env : Env ν) (st : Store ν) (i : Nat) (ctx : List Nat) (g : Genome ν)
    (hi : st.genomes[i]? = some g) : step env st (.express i ctx) = (st, .config (express g ctx)) :=
  step_express hi

/-! ## Read-only queries (validate, list_genes, diff): outside the property, modelled for the correspondence -/

/-- `validate`, `list_genes` and `diff` change nothing in the store. -/
theorem c20_queries_change_nothing (env : Env ν) (st : Store ν) (i j : Nat) :
    (step env st (.validate i)).1 = st ∧ (step env st (.listGenes i)).1 = st ∧ (step env st (.diff i j)).1 = st :=
  ⟨step_query (Or.inl ⟨i, rfl⟩), step_query (Or.inr (Or.inl ⟨i, rfl⟩)), step_query (Or.inr (Or.inr ⟨i, j, rfl⟩))⟩

/-- `validate` reports exactly the required genes that are silenced. -/
theorem c20_validate_exact (g : Genome ν) (hw : WFG g) (n : Nat) :
    n ∈ validate g ↔ ∃ x, findGene g.genes n = some x ∧ x.required = true ∧ findLevel g.expr n = some .silenced := by
  unfold validate
  simp only [List.mem_map, List.mem_filter, Bool.and_eq_true, beq_iff_eq]
  constructor
  · rintro ⟨x, ⟨hx, hr, hs⟩, rfl⟩
    exact ⟨x, findGene_of_mem_nodup hw hx, hr, hs⟩
  · rintro ⟨x, hf, hr, hs⟩
    have hn := findGene_some_name hf
    exact ⟨x, ⟨findGene_some_mem hf, hr, by rw [hn]; exact hs⟩, hn⟩

/-- `diff` reports exactly the names, of either genome, under which the two show different values (`None`
    standing for "no such gene"), each with the two values shown. -/
theorem c20_diff_exact (env : Env ν) (g h : Genome ν) (n : Nat) (a b : Option ν) :
    (n, a, b) ∈ diff env g h ↔
      (n ∈ g.genes.map (·.name) ∨ n ∈ h.genes.map (·.name)) ∧ a = valueOf g n ∧ b = valueOf h n ∧
        differs env (valueOf g n) (valueOf h n) = true := by
  unfold diff
  simp only [List.mem_map, List.mem_filter, List.mem_append, Prod.mk.injEq, List.contains_eq_mem,
    Bool.not_eq_true', decide_eq_false_iff_not]
  constructor
  · rintro ⟨m, ⟨hm, hd⟩, rfl, rfl, rfl⟩
    refine ⟨?_, rfl, rfl, hd⟩
    rcases hm with hm | ⟨hm, -⟩
    · exact Or.inl hm
    · exact Or.inr hm
  · rintro ⟨hm, rfl, rfl, hd⟩
    refine ⟨n, ⟨?_, hd⟩, rfl, rfl, rfl⟩
    by_cases hg : ∃ a, a ∈ g.genes ∧ a.name = n
    · exact Or.inl hg
    · rcases hm with hm | hm
      · exact absurd hm hg
      · exact Or.inr ⟨hm, hg⟩

/-- **`get_statistics` counts what the log says** (the property's observation point `approved_mutations`): it changes
    nothing; `mutations_count` is the length of the log and `approved_mutations` the number of its approved entries.
    A refused `mutate` raises `mutations_count` by one and leaves `approved_mutations` alone; an authorised one raises
    both by one. -/
theorem c20_statistics_exact (env : Env ν) (st : Store ν) (i n : Nat) (v : ν) (g : Genome ν) (og : Gene ν)
    (hi : st.genomes[i]? = some g) (hf : findGene g.genes n = some og) :
    step env st (.stats i) = (st, .statistics (stats g)) ∧
    (stats g).mutations = g.log.length ∧ (stats g).approved = (g.log.filter (·.approved)).length ∧
    (stats g).total = g.genes.length ∧
    ∀ b, (step env st (.mutate i n v)).2 = .ret b →
      ∃ g', (step env st (.mutate i n v)).1.genomes[i]? = some g' ∧ (stats g').mutations = (stats g).mutations + 1 ∧
        (stats g').approved = (stats g).approved + (if b then 1 else 0) ∧ (stats g').total = (stats g).total := by
  refine ⟨step_stats hi, rfl, rfl, rfl, ?_⟩
  intro b hb
  cases hm : mutate env st.calls g n v .user with
  | raised k => rw [step_mutate_raised hi hm] at hb; cases hb
  | done g' b' k =>
    rw [step_mutate_done hi hm] at hb ⊢
    cases hb
    obtain ⟨hnames, -, hcase⟩ := mutate_done_spec hm
    refine ⟨g', by simpa using getElem?_set_of_some (i := i) (a := g') hi, ?_⟩
    rcases hcase with ⟨hnone, -, -⟩ | ⟨og', -, hlog, -⟩
    · rw [hf] at hnone; cases hnone
    · have hlen : g'.genes.length = g.genes.length := by
        have := congrArg List.length hnames; simpa using this
      simp only [stats, hlog, hlen, List.length_append, List.length_cons, List.length_nil, List.filter_append,
        true_and, and_true]
      cases b <;> simp [List.filter]

/-! ## Clause 6 — rollback -/

/-- **Rollback restores the value that preceded the last approved mutation.**  If `rollback_mutation`
    returns `True`, then the log splits as `pre ++ m :: post` where `m` is an approved mutation of this gene and
    no approved mutation of this gene follows it; afterwards the gene's stored value is `m.orig` — the value
    `m` recorded as the one it replaced —, no other gene changed, and the rollback is itself logged as an
    approved mutation (current value → restored value). -/
theorem c20_rollback_restores (env : Env ν) (st : Store ν) (i n : Nat) (g : Genome ν)
    (hi : st.genomes[i]? = some g) (hret : (step env st (.rollback i n)).2 = .ret true) :
    ∃ m pre post og g', g.log = pre ++ m :: post ∧ m.gene = n ∧ m.approved = true ∧
      (∀ m' ∈ post, ¬ (m'.gene = n ∧ m'.approved = true)) ∧
      findGene g.genes n = some og ∧
      (step env st (.rollback i n)).1.genomes[i]? = some g' ∧
      findGene g'.genes n = some { og with value := m.orig } ∧
      (∀ n', n' ≠ n → findGene g'.genes n' = findGene g.genes n') ∧
      g'.log = g.log ++ [⟨n, og.value, m.orig, .rollback, true⟩] ∧
      Authorised env g ⟨n, og.value, m.orig, .rollback, true⟩ := by
  cases hm : lastApproved g.log n with
  | none =>
    have : rollback env st.calls g n = .done g false st.calls := by unfold rollback; rw [hm]
    rw [step_rollback_done hi this] at hret; cases hret
  | some m =>
    obtain ⟨hg, ha, pre, post, hlog, hno⟩ := lastApproved_some_iff.mp hm
    have hrb : rollback env st.calls g n = mutate env st.calls g n m.orig .rollback := by
      unfold rollback; rw [hm]
    have key : ∀ og k, findGene g.genes n = some og →
        rollback env st.calls g n = .done (applyMut g og n m.orig .rollback) true k →
        Authorised env g ⟨n, og.value, m.orig, .rollback, true⟩ → _ := fun og k hf e hauth => by
      have hset := getElem?_set_of_some (i := i) (a := applyMut g og n m.orig .rollback) hi
      rw [if_pos rfl] at hset
      have hname := findGene_some_name hf
      exact (⟨m, pre, post, og, applyMut g og n m.orig .rollback, hlog, hg, ha, hno, hf,
        by rw [step_rollback_done hi e]; exact hset,
        by simpa [applyMut, hname] using findGene_putGene_same g.genes { og with value := m.orig },
        by intro n' hn'; simp only [applyMut]; rw [findGene_putGene_other]; simpa [hname] using hn',
        rfl, hauth⟩ : ∃ m pre post og g', g.log = pre ++ m :: post ∧ m.gene = n ∧ m.approved = true ∧
          (∀ m' ∈ post, ¬ (m'.gene = n ∧ m'.approved = true)) ∧ findGene g.genes n = some og ∧
          (step env st (.rollback i n)).1.genomes[i]? = some g' ∧
          findGene g'.genes n = some { og with value := m.orig } ∧
          (∀ n', n' ≠ n → findGene g'.genes n' = findGene g.genes n') ∧
          g'.log = g.log ++ [⟨n, og.value, m.orig, .rollback, true⟩] ∧
          Authorised env g ⟨n, og.value, m.orig, .rollback, true⟩)
    rcases mutate_cases env st.calls g n m.orig .rollback with ⟨hn, e⟩ | ⟨og, hf, ⟨hal, e⟩ | ⟨hal, hcb, e⟩ |
      ⟨c, hal, hcb, ⟨ha', e⟩ | ⟨ha', e⟩ | ⟨ha', e⟩⟩⟩
    · rw [← hrb] at e; rw [step_rollback_done hi e] at hret; cases hret
    · rw [← hrb] at e; exact key og _ hf e (Or.inl hal)
    · rw [← hrb] at e; rw [step_rollback_done hi e] at hret; cases hret
    · rw [← hrb] at e; exact key og _ hf e (Or.inr ⟨c, st.calls, hcb, ha'⟩)
    · rw [← hrb] at e; rw [step_rollback_done hi e] at hret; cases hret
    · rw [← hrb] at e; rw [step_rollback_raised hi e] at hret; cases hret

/-- With no approved mutation of the gene in the log there is nothing to roll back: `False`, no change, no
    callback call. -/
theorem c20_rollback_without_approved_mutation (env : Env ν) (st : Store ν) (i n : Nat) (g : Genome ν)
    (hi : st.genomes[i]? = some g) (hno : ∀ m ∈ g.log, ¬ (m.gene = n ∧ m.approved = true)) :
    (step env st (.rollback i n)).2 = .ret false ∧ (step env st (.rollback i n)).1.genomes[i]? = some g ∧
      (step env st (.rollback i n)).1.calls = st.calls := by
  have : rollback env st.calls g n = .done g false st.calls := by
    unfold rollback; rw [lastApproved_none_iff.mpr hno]
  rw [step_rollback_done hi this]
  exact ⟨rfl, by simpa using getElem?_set_of_some (i := i) (a := g) hi, rfl⟩

/-- **The same over histories, in terms of what was observed rather than what the log says.**  Let a `mutate`
    of gene `n` succeed at some moment, when the stored value was `w`.  Let any history follow in which no
    further approved mutation of `n` is logged on that genome (refused attempts, mutations of other genes,
    expression changes, replications, operations on other genomes are all allowed).  If `rollback_mutation`
    then returns `True`, the stored value of `n` is `w` again. -/
theorem c20_rollback_restores_preceding_value (env : Env ν) (st : Store ν) (i n : Nat) (v : ν) (g : Genome ν)
    (og : Gene ν) (hi : st.genomes[i]? = some g) (hf : findGene g.genes n = some og)
    (hmut : (step env st (.mutate i n v)).2 = .ret true) (ops : List (Op ν)) (g₂ : Genome ν)
    (h₂ : (run env (step env st (.mutate i n v)).1 ops).genomes[i]? = some g₂)
    (hquiet : ∀ m ∈ g₂.log.drop (g.log.length + 1), ¬ (m.gene = n ∧ m.approved = true))
    (hrb : (step env (run env (step env st (.mutate i n v)).1 ops) (.rollback i n)).2 = .ret true) :
    ∃ g₃ og₃, (step env (run env (step env st (.mutate i n v)).1 ops) (.rollback i n)).1.genomes[i]? = some g₃ ∧
      findGene g₃.genes n = some og₃ ∧ og₃.value = og.value := by
  -- the successful mutate appended ⟨n, w, v, approved⟩
  have hg₁ : (step env st (.mutate i n v)).1.genomes[i]? = some (applyMut g og n v .user) := by
    rcases mutate_cases env st.calls g n v .user with ⟨hn, -⟩ | ⟨og', hf', ⟨hal, e⟩ | ⟨hal, hcb, e⟩ |
      ⟨c, hal, hcb, ⟨ha, e⟩ | ⟨ha, e⟩ | ⟨ha, e⟩⟩⟩
    · rw [hf] at hn; cases hn
    all_goals (rw [hf] at hf'; cases hf')
    · rw [step_mutate_done hi e]; simpa using getElem?_set_of_some (i := i) (a := applyMut g og n v .user) hi
    · rw [step_mutate_done hi e] at hmut; cases hmut
    · rw [step_mutate_done hi e]; simpa using getElem?_set_of_some (i := i) (a := applyMut g og n v .user) hi
    · rw [step_mutate_done hi e] at hmut; cases hmut
    · rw [step_mutate_raised hi e] at hmut; cases hmut
  obtain ⟨g₂', h₂', ev⟩ := run_evolves env _ ops _ i _ hg₁ (callsUnder_true env i ops _)
  rw [h₂] at h₂'; cases h₂'
  obtain ⟨s, hl, -, -⟩ := ev.main
  have hlog : g₂.log = (g.log ++ [⟨n, og.value, v, .user, true⟩]) ++ s := by simpa [applyMut] using hl
  have hdrop : g₂.log.drop (g.log.length + 1) = s := by
    rw [hlog]
    have : (g.log ++ [(⟨n, og.value, v, .user, true⟩ : Mut ν)]).length = g.log.length + 1 := by simp
    rw [← this, List.drop_left]
  rw [hdrop] at hquiet
  have hla : lastApproved g₂.log n = some ⟨n, og.value, v, .user, true⟩ := by
    rw [hlog, lastApproved_append, lastApproved_none_iff.mpr hquiet, lastApproved_append, lastApproved_singleton]
    simp
  obtain ⟨m, pre, post, og₂, g₃, hsplit, hg, ha, hno, hf₂, hg₃, hval, -⟩ := c20_rollback_restores env _ i n g₂ h₂ hrb
  have hm : lastApproved g₂.log n = some m := lastApproved_some_iff.mpr ⟨hg, ha, pre, post, hsplit, hno⟩
  rw [hla] at hm; cases hm
  exact ⟨g₃, _, hg₃, hval, rfl⟩

/-- **However long the log has become, an authorised rollback finds the last approved mutation.**  Let the log be
    `pre ++ m :: post` with `m` an approved mutation of gene `n` and NO approved mutation of `n` in `post` — `post` may
    hold any number of refused attempts on any gene, approved mutations of other genes, refused rollbacks and re-adds;
    there is no bound on its length.  If the gate lets the rollback through (mutations enabled, or the installed callback
    approves exactly this call), `rollback_mutation` reports `True`, the gene holds `m.orig` again and the rollback is
    appended as an approved entry: nothing in the log is ever forgotten, rotated out or summarised. -/
theorem c20_authorised_rollback_succeeds_after_any_number_of_attempts (env : Env ν) (st : Store ν) (i n : Nat)
    (g : Genome ν) (og : Gene ν) (m : Mut ν) (pre post : List (Mut ν))
    (hi : st.genomes[i]? = some g) (hf : findGene g.genes n = some og)
    (hlog : g.log = pre ++ m :: post) (hg : m.gene = n) (ha : m.approved = true)
    (hquiet : ∀ m' ∈ post, ¬ (m'.gene = n ∧ m'.approved = true))
    (hauth : g.allow = true ∨
      (g.allow = false ∧ ∃ c, g.cb = some c ∧ env.adv c st.calls n og.value m.orig .rollback = .approve)) :
    (step env st (.rollback i n)).2 = .ret true ∧
    ∃ g', (step env st (.rollback i n)).1.genomes[i]? = some g' ∧
      findGene g'.genes n = some { og with value := m.orig } ∧
      g'.log = g.log ++ [⟨n, og.value, m.orig, .rollback, true⟩] := by
  have hla : lastApproved g.log n = some m := lastApproved_some_iff.mpr ⟨hg, ha, pre, post, hlog, hquiet⟩
  have hrb : rollback env st.calls g n = mutate env st.calls g n m.orig .rollback := by
    unfold rollback; rw [hla]
  have hname := findGene_some_name hf
  have fin : ∀ k, rollback env st.calls g n = .done (applyMut g og n m.orig .rollback) true k → _ := fun k e => by
    have hset := getElem?_set_of_some (i := i) (a := applyMut g og n m.orig .rollback) hi
    rw [if_pos rfl] at hset
    exact (⟨by rw [step_rollback_done hi e], applyMut g og n m.orig .rollback,
      by rw [step_rollback_done hi e]; exact hset,
      by simpa [applyMut, hname] using findGene_putGene_same g.genes { og with value := m.orig }, rfl⟩ :
      (step env st (.rollback i n)).2 = .ret true ∧
      ∃ g', (step env st (.rollback i n)).1.genomes[i]? = some g' ∧
        findGene g'.genes n = some { og with value := m.orig } ∧
        g'.log = g.log ++ [⟨n, og.value, m.orig, .rollback, true⟩])
  rcases mutate_cases env st.calls g n m.orig .rollback with ⟨hn, -⟩ | ⟨og', hf', ⟨hal, e⟩ | ⟨hal, hcb, e⟩ |
    ⟨c, hal, hcb, ⟨ha', e⟩ | ⟨ha', e⟩ | ⟨ha', e⟩⟩⟩
  · rw [hf] at hn; cases hn
  all_goals (rw [hf] at hf'; cases hf')
  · rw [← hrb] at e; exact fin _ e
  · rcases hauth with h | ⟨-, c, hc, -⟩
    · rw [hal] at h; cases h
    · rw [hcb] at hc; cases hc
  · rw [← hrb] at e; exact fin _ e
  · rcases hauth with h | ⟨-, c', hc, hap⟩
    · rw [hal] at h; cases h
    · rw [hcb] at hc; cases hc; rw [ha'] at hap; cases hap
  · rcases hauth with h | ⟨-, c', hc, hap⟩
    · rw [hal] at h; cases h
    · rw [hcb] at hc; cases hc; rw [ha'] at hap; cases hap

/-- non-vacuity, and the shape seeded change s1 broke: one approved mutation of gene 0 followed by 1001 refused
    attempts on gene 1 — the rollback of gene 0 still succeeds (an instance of the theorem, not an evaluation) -/
example :
    let g : Genome Nat := ⟨true, none, false, [⟨0, 7, .structural, true, .normal⟩, ⟨1, 2, .conditional, false, .high⟩],
      [(0, .normal), (1, .high)], [⟨0, 1, 7, .user, true⟩] ++ List.replicate 1001 ⟨1, 2, 5, .user, false⟩, 0, none⟩
    (step (gateEnv none) (⟨[g], 0, 0⟩ : Store Nat) (.rollback 0 0)).2 = .ret true :=
  (c20_authorised_rollback_succeeds_after_any_number_of_attempts (gateEnv none) _ 0 0 _ ⟨0, 7, .structural, true, .normal⟩
    ⟨0, 1, 7, .user, true⟩ [] (List.replicate 1001 ⟨1, 2, 5, .user, false⟩) rfl rfl rfl rfl rfl
    (by intro m' hm'; rw [List.eq_of_mem_replicate hm']; decide) (Or.inl rfl)).1

/-! ## Reachability and the hash assumption -/

/-- Gene names stay distinct (the gene table is a dict) in every store reachable from the empty one; this is
    the `WF` hypothesis of the replication and `express` theorems, and it is preserved by every history. -/
theorem c20_wf_reachable (env : Env ν) (ops : List (Op ν)) : WF (run env Store.empty ops) :=
  run_wf env ops _ wf_empty

theorem c20_wf_preserved (env : Env ν) (st : Store ν) (hw : WF st) (ops : List (Op ν)) : WF (run env st ops) :=
  run_wf env ops st hw

/-- What the injectivity assumption on the digest buys: two genomes have the same hash iff they have the same
    canonical (name-sorted) list of (name, value) pairs.  The harness relies on exactly this when it compares
    hash-equality patterns of the implementation with canonical-list-equality patterns of the model. -/
theorem c20_hash_eq_iff {η : Type} (H : List (Nat × ν) → η) (hinj : ∀ a b, H a = H b → a = b) (g₁ g₂ : Genome ν) :
    hash H g₁ = hash H g₂ ↔ canon g₁ = canon g₂ :=
  ⟨fun h => hinj _ _ h, fun h => by simp [hash, h]⟩

/-- The canonical list — hence, with `c20_hash_eq_iff`, the hash — identifies exactly the stored name → value
    map, whatever the insertion order: two genomes have equal canonical lists iff `get_gene` shows the same value
    (or no gene) under every name.  So "the hash is unchanged" and "no stored value changed, none appeared, none
    disappeared" are the same statement. -/
theorem c20_canon_eq_iff_same_stored_values (g₁ g₂ : Genome ν) (hw₁ : WFG g₁) (hw₂ : WFG g₂) :
    canon g₁ = canon g₂ ↔ ∀ n, valueOf g₁ n = valueOf g₂ n :=
  canon_eq_iff hw₁ hw₂

/-- Outside the property as read in DESIGN.md ("re-adding"), stated so that it is not overlooked: with mutations
    disabled `add_gene` of a NEW name is accepted, appends the gene (changing the hash) and leaves every
    existing gene alone. -/
theorem c20_fresh_add_appends_gene (g : Genome ν) (x : Gene ν) (hfresh : findGene g.genes x.name = none) :
    (addGene g x).2 = true ∧ (addGene g x).1.genes = g.genes ++ [x] ∧ (addGene g x).1.log = g.log := by
  have hn := findGene_none_iff.mp hfresh
  unfold addGene
  simp [hfresh, putGene_of_not_mem _ _ hn]

/-! ## The model is what the source says: agreement with the machine translation of genome.py

`Operon/Gen/GenomeTranslated.lean` is regenerated from `operon_ai/state/genome.py` on every run by
`harness/vf/extract/py2lean_genome.py` (typed, fail-closed: anything outside its subset becomes
`untranslatable "…"`).  Each theorem states that the translation of a method IS the hand-written model function the
property theorems are about — full equality of the resulting genome, return value and callback-call counter, for every
genome, every environment and every argument.  A change of the source that alters the authorisation logic of one of
these methods, or leaves the subset, breaks the corresponding theorem. -/

theorem c20_translation_agrees_add_gene (env : Env ν) (k : Nat) (g : Genome ν) (x : Gene ν) :
    Tr.add_gene env k g x = .done (addGene g x).1 (addGene g x).2 k := by
  obtain ⟨allow, cb, rate, genes, expr, log, gen, ph⟩ := g
  cases hf : findGene genes x.name <;> cases allow <;>
    simp [Tr.add_gene, addGene, refuseMut, hf, putGeneAt_name]

set_option linter.unusedSimpArgs false in
theorem c20_translation_agrees_mutate (env : Env ν) (k : Nat) (g : Genome ν) (n : Nat) (v : ν) (r : Reason) :
    Tr.mutate env k g n v r = mutate env k g n v r := by
  obtain ⟨allow, cb, rate, genes, expr, log, gen, ph⟩ := g
  unfold Tr.mutate mutate
  cases hf : findGene genes n with
  | none => simp
  | some og =>
    have hn := findGene_some_name hf
    subst hn
    have hp : ∀ v : ν, putGeneAt genes og.name ⟨og.name, v, og.gtype, og.required, og.defExpr⟩
        = putGene genes { og with value := v } := fun v => putGeneAt_name genes { og with value := v }
    cases allow <;> cases cb <;> simp [applyMut, refuseMut, hp] <;>
      (cases env.adv _ k og.name og.value v r <;> simp [hp])

set_option linter.unusedSimpArgs false in
theorem c20_translation_agrees_rollback_mutation (env : Env ν) (k : Nat) (g : Genome ν) (n : Nat) :
    Tr.rollback_mutation env k g n = rollback env k g n := by
  have hpred : ∀ m : Mut ν, (m.approved && (m.gene == n)) = ((m.gene == n) && m.approved) :=
    fun m => Bool.and_comm _ _
  simp only [Tr.rollback_mutation, rollback, lastApproved, c20_translation_agrees_mutate, hpred]
  cases g.log.reverse.find? (fun m => m.gene == n && m.approved) <;> simp

theorem c20_translation_agrees_set_expression (env : Env ν) (k : Nat) (g : Genome ν) (n : Nat) (l : Level) :
    Tr.set_expression env k g n l () = .done (setExpr g n l).1 (setExpr g n l).2 k := by
  cases hf : findGene g.genes n <;> simp [Tr.set_expression, setExpr, hf]

theorem c20_translation_agrees_silence_gene (env : Env ν) (k : Nat) (g : Genome ν) (n : Nat) :
    Tr.silence_gene env k g n () = .done (setExpr g n .silenced).1 (setExpr g n .silenced).2 k := by
  simp only [Tr.silence_gene]; exact c20_translation_agrees_set_expression env k g n .silenced

theorem c20_translation_agrees_activate_gene (env : Env ν) (k : Nat) (g : Genome ν) (n : Nat) :
    Tr.activate_gene env k g n () = .done (setExpr g n .normal).1 (setExpr g n .normal).2 k := by
  simp only [Tr.activate_gene]; exact c20_translation_agrees_set_expression env k g n .normal

/-- the child is constructed with the parent's gate settings (what `childBase` says) -/
theorem c20_translation_agrees_replicate_child_gate (p : Genome ν) (inh : Bool) :
    Tr.replicate_child_gate p = some ⟨(childBase p inh).allow, (childBase p inh).cb, (childBase p inh).rate⟩ := by
  obtain ⟨h1, h2, h3⟩ := addAll_gate p.genes (emptyGenome p.allow p.cb p.rate)
  simp only [emptyGenome] at h1 h2 h3
  simp only [Tr.replicate_child_gate, childBase, newGenome, emptyGenome, h1, h2, h3]

/-- the requested mutations of `replicate` go, one by one and in order, through the CHILD's `mutate` with reason
    "replication_mutation" — the model's `mutateList` -/
theorem c20_translation_agrees_replicate_mutations (env : Env ν) (d : Nat) (muts : List (Nat × ν)) :
    ∀ (k : Nat) (c : Genome ν), Tr.replicate_mutations env d k c muts = mutateList env d k c muts := by
  induction muts with
  | nil => intro k c; rfl
  | cons p rest ih =>
    intro k c
    obtain ⟨a, b⟩ := p
    simp only [Tr.replicate_mutations, mutateList, c20_translation_agrees_mutate]
    cases mutate env k c a b .replication <;> simp [ih]

/-! ## Clause 2 in full: EVERY refused attempt is logged — also a refused re-add

(finding C20-refused-readd-not-logged, repaired in /repo: `add_gene` on an existing name with mutations disabled used to
return False without a trace; it now appends the same kind of unapproved `Mutation` record a refused `mutate` appends,
reason "add_gene") -/

/-- **A refused re-add is logged as unapproved** and changes nothing else: `add_gene` of an existing name on a genome
    whose mutations are disabled at that moment reports `False`, appends exactly one entry (this gene, current value →
    offered value, reason "add_gene", NOT approved) and leaves genes, expression, settings and the callback counter as
    they were — the approval callback is not consulted. -/
theorem c20_refused_readd_logged_unapproved (env : Env ν) (st : Store ν) (i : Nat) (g : Genome ν) (x og : Gene ν)
    (hi : st.genomes[i]? = some g) (hal : g.allow = false) (hf : findGene g.genes x.name = some og) :
    (step env st (.add i x)).2 = .ret false ∧
    (step env st (.add i x)).1.genomes[i]? =
      some { g with log := g.log ++ [⟨x.name, og.value, x.value, .readd, false⟩] } ∧
    (step env st (.add i x)).1.calls = st.calls := by
  rw [step_add hi, addGene_refused hal hf]
  exact ⟨rfl, by simpa [refuseMut] using getElem?_set_of_some (i := i) (a := refuseMut g og x.name x.value .readd) hi, rfl⟩

/-- `add_gene` reports `False` only when it refuses: the name exists and mutations are disabled. -/
theorem c20_add_gene_false_iff_refused (g : Genome ν) (x : Gene ν) :
    (addGene g x).2 = false ↔ (g.allow = false ∧ (findGene g.genes x.name).isSome = true) := by
  unfold addGene
  cases hf : findGene g.genes x.name with
  | none => simp
  | some og => cases hal : g.allow <;> simp

/-- **Every refused attempt is logged as unapproved.**  A `mutate` of an existing gene, a `rollback_mutation` that has
    an approved mutation to roll back, or an `add_gene` of an existing name, that reports `False` appends exactly one
    entry to the genome's log, flagged unapproved, and changes nothing else. -/
theorem c20_every_refused_attempt_logged (env : Env ν) (st : Store ν) (i : Nat) (g : Genome ν) (op : Op ν)
    (hi : st.genomes[i]? = some g)
    (hop : (∃ n v, op = .mutate i n v ∧ (findGene g.genes n).isSome = true) ∨
      (∃ n, op = .rollback i n ∧ (findGene g.genes n).isSome = true ∧ (lastApproved g.log n).isSome = true) ∨
      (∃ x, op = .add i x ∧ (findGene g.genes x.name).isSome = true))
    (hret : (step env st op).2 = .ret false) :
    ∃ m : Mut ν, m.approved = false ∧ (step env st op).1.genomes[i]? = some { g with log := g.log ++ [m] } := by
  rcases hop with ⟨n, v, rfl, hn⟩ | ⟨n, rfl, hn, hl⟩ | ⟨x, rfl, hx⟩
  · obtain ⟨og, hf⟩ := Option.isSome_iff_exists.mp hn
    exact ⟨_, rfl, c20_every_refused_mutation_logged_unapproved env st i n v g og hi hf hret⟩
  · obtain ⟨og, hf⟩ := Option.isSome_iff_exists.mp hn
    obtain ⟨m, hm⟩ := Option.isSome_iff_exists.mp hl
    exact ⟨_, rfl, c20_refused_rollback_logged_unapproved env st i n g og m hi hf hm hret⟩
  · obtain ⟨og, hf⟩ := Option.isSome_iff_exists.mp hx
    have hfalse : (addGene g x).2 = false := by
      rw [step_add hi] at hret; simpa using hret
    have hal := ((c20_add_gene_false_iff_refused g x).mp hfalse).1
    exact ⟨_, rfl, (c20_refused_readd_logged_unapproved env st i g x og hi hal hf).2.1⟩

/-- … and the log records nothing else for `add_gene`: an accepted add (new name, or overwrite with mutations enabled)
    leaves the log alone. -/
theorem c20_accepted_add_logs_nothing (g : Genome ν) (x : Gene ν) (h : (addGene g x).2 = true) :
    (addGene g x).1.log = g.log := addGene_log g x h

/-- the repaired defect, concretely: a callback-gated genome, `add_gene` of the existing gene 0 with another value is
    refused, the value stays, and the attempt is in the log, unapproved (before the repair the log stayed empty) -/
example :
    (let g : Genome Nat := newGenome false (some 0) false [⟨0, 1, .structural, true, .normal⟩]
     let st : Store Nat := ⟨[g], 0, 0⟩
     (step (gateEnv (some .approve)) st (.add 0 ⟨0, 9, .structural, true, .normal⟩)).2 = .ret false ∧
     (step (gateEnv (some .approve)) st (.add 0 ⟨0, 9, .structural, true, .normal⟩)).1.genomes =
       [{ g with log := [⟨0, 1, 9, .readd, false⟩] }] ∧ g.log = []) := by decide

/-! ## Open finding (the model stays faithful to the code; `_partial` = the clause outside the trigger, `_witness` = a
concrete counterexample) -/

/-! ### C20-shared-mutable-value-objects — parent, child, the log and every accessor share the value OBJECTS

Read with `ν := Nat` = object identity (see Model/Genome.lean, "value OBJECTS"), every theorem above is a statement about
which OBJECT a gene table holds: no API operation replaces the object stored under a gene without authorisation, and no
API operation has access to the CONTENT of an object (`H`) at all.  What the API does not prevent: the child is built
from the parent's own objects, `mutate` logs the old object itself, and `get_gene` / `get_value` / `express` / `export`
return the stored object — so a caller that mutates such an object in place (`poke`) changes what every holder shows. -/

/-- **In-place mutation of an object a genome does not hold changes nothing in it**: its name → value view and what
    its hash digests are the same before and after.
    -- FULL (false on current tree): in-place mutation of an object obtained from ANOTHER genome (a child, a parent),
    -- from the log, or from an accessor never changes a genome's stored values or hash
    -- (`c20_shared_value_object_witness`). -/
theorem c20_poke_of_unheld_object_changes_nothing_partial {κ : Type} (H : Nat → κ) (g : Genome Nat) (r : Nat) (c : κ)
    (h : holds g r = false) :
    view (poke H r c) g = view H g ∧ canonView (poke H r c) g = canonView H g := by
  have hne : ∀ p ∈ table g, p.2 ≠ r := by
    intro p hp hpr
    obtain ⟨x, hx, rfl⟩ := List.mem_map.mp hp
    have : holds g r = true := by
      unfold holds
      exact List.any_eq_true.mpr ⟨x, hx, by simpa using hpr⟩
    rw [h] at this; cases this
  constructor
  · unfold view
    apply List.map_congr_left
    intro p hp
    simp [poke, hne p hp]
  · unfold canonView canon
    apply List.map_congr_left
    intro p hp
    simp [poke, hne p ((sortKV_perm (table g)).subset hp)]

/-- **Where a child's objects come from.**  Reading values as object identities: at birth a child holds only objects
    its parent holds (shared, not copied), or objects written into it by an approved, gate-authorised entry of its own
    log (the requested / random replication mutations that were let through) — nothing else, in particular no object
    of any other genome. -/
theorem c20_child_holds_parents_objects_or_authorised_ones (env : Env Nat) (st : Store Nat) (hw : WF st) (i : Nat)
    (muts : List (Nat × Nat)) (inh : Bool) (p : Genome Nat) (hi : st.genomes[i]? = some p) (id : Nat)
    (hret : (step env st (.replicate i muts inh)).2 = .child id) :
    ∃ c, (step env st (.replicate i muts inh)).1.genomes[id]? = some c ∧
      ∀ r, holds c r = true →
        holds p r = true ∨ ∃ m ∈ c.log, m.new = r ∧ m.approved = true ∧ Authorised env p m := by
  obtain ⟨c, -, hc, -, -, -, -, hnames, hall⟩ := c20_child_differs_only_in_authorised env st hw i muts inh p hi id hret
  refine ⟨c, hc, ?_⟩
  intro r hr
  have hwc : WFG c := step_wf env st _ hw c (List.mem_of_getElem? hc)
  obtain ⟨y, hy, hyr⟩ := List.any_eq_true.mp hr
  have hyr : y.value = r := by simpa using hyr
  have hfc : findGene c.genes y.name = some y := findGene_of_mem_nodup hwc hy
  have hin : y.name ∈ p.genes.map (·.name) := hnames ▸ List.mem_map.mpr ⟨y, hy, rfl⟩
  obtain ⟨x, hx⟩ := Option.isSome_iff_exists.mp (findGene_isSome_iff.mpr hin)
  obtain ⟨w, hw', hor⟩ := hall y.name x hx
  rw [hfc] at hw'
  have hyw : r = w := by
    have := congrArg Gene.value (Option.some.inj hw')
    simpa [hyr] using this
  rcases hor with h | ⟨m, hm, -, hnew, happ, hauth⟩
  · left
    unfold holds
    exact List.any_eq_true.mpr ⟨x, findGene_some_mem hx, by simp [← h, hyw]⟩
  · exact Or.inr ⟨m, hm, by rw [hnew, hyw], happ, hauth⟩

/-- **Replication shares the value objects** — concrete: a locked parent (no callback) whose gene 0 holds the object
    200 is replicated; parent and child hold the SAME object; the caller mutates in place the object it obtained from
    the CHILD: what the PARENT's hash digests changes, and nothing was logged anywhere. -/
theorem c20_shared_value_object_witness :
    let p : Genome Nat := newGenome false none false [⟨0, 200, .structural, true, .normal⟩]
    let st := (step (gateEnv none) ⟨[p], 0, 0⟩ (.replicate 0 [] true)).1
    let H : Nat → Nat × Nat := fun r => (r, 0)
    st.genomes[0]? = some p ∧ (st.genomes[1]?.map fun c => (holds c 200, c.log.length)) = some (true, 0) ∧
    holds p 200 = true ∧ p.log = [] ∧
    canonView (poke H 200 (200, 1)) p ≠ canonView H p := by decide

/-! ## The model is what the source DOES: agreement with decision tables evaluated on the real class

`Operon/Gen/GenomeTables.lean` is regenerated on every run by `harness/vf/extract/eval_genome.py`, which RUNS the
`Genome` class of the tree under test on every point of three finite domains (nothing is parsed, so rewrites that keep
the behaviour keep the file).  A point whose evaluation fails, or whose routes disagree, is `none` and fails the theorem. -/

/-- **`express` — the filter of the model is the filter of the source.**  For every gene type, expression level and
    "named in the context", the model's per-gene test `expressed` gives what the real `express()` gave at that point
    (level set as default / by `set_expression` / `silence_gene` / `activate_gene` / inherited by a child; context as
    dict, empty, `None`; before and after a neighbour gene).  Together with `c20_express_exact` (the filter is applied
    to every gene independently) this ties clause 5 to the code. -/
theorem c20_express_agrees_with_evaluated_source (g : Genome ν) (ctx : List Nat) (x : Gene ν) (l : Level)
    (h : findLevel g.expr x.name = some l) :
    Gen.expressTable.lookup (x.gtype, l, ctx.contains x.name) = some (some (expressed g ctx x)) := by
  unfold expressed
  rw [h]
  generalize x.gtype = t
  generalize ctx.contains x.name = c
  cases t <;> cases l <;> cases c <;> decide

/-- `get_value` shows the stored value exactly at the levels at which the real `get_value()` showed it. -/
theorem c20_get_value_agrees_with_evaluated_source (g : Genome ν) (n : Nat) (x : Gene ν) (l : Level)
    (hx : findGene g.genes n = some x) (h : findLevel g.expr n = some l) :
    Gen.getValueTable.lookup l = some (some (getValue g n).isSome) ∧
      (getValue g n = some x.value ∨ getValue g n = none) := by
  have hv : (getValue g n).isSome = !(l == .silenced) := by
    unfold getValue; rw [hx]; simp only [h]; cases l <;> simp
  refine ⟨by rw [hv]; cases l <;> decide, ?_⟩
  unfold getValue; rw [hx]; simp only [h]; cases l <;> simp

/-- **The gate — evaluated, not parsed.**  For each of `mutate`, `rollback_mutation`, re-`add_gene`, each
    `allow_mutations` setting, each kind of callback (absent / approves / refuses / raises), and both ways a genome
    can get these settings — from the constructor, or ASSIGNED to the public attributes of a live genome that was
    built open and already mutated once — the model computes exactly what the real class did: return value (or the
    propagated exception), the approved-flags of the log entries the call appended, the stored value afterwards. -/
theorem c20_gate_agrees_with_evaluated_source (op : Nat) (hop : op < 3) (allow : Bool) (ans : Option Ans) (late : Bool) :
    Gen.gateTable.lookup (op, allow, ans, late) = some (some (gateScenario op allow ans late)) := by
  match op, hop with
  | 0, _ => cases allow <;> cases late <;> rcases ans with _ | (_ | _ | _) <;> decide
  | 1, _ => cases allow <;> cases late <;> rcases ans with _ | (_ | _ | _) <;> decide
  | 2, _ => cases allow <;> cases late <;> rcases ans with _ | (_ | _ | _) <;> decide
  | n + 3, h => exact absurd h (by omega)

/-- **`replicate` — evaluated.**  For every combination of `allow_mutations`, callback present, `mutation_rate > 0`,
    `inherit_expression`, "settings assigned to the live parent after construction" and "gene silenced in the parent",
    the child the real `replicate()` returned is the child of the model (`childBase` + the random pass through the
    child's gate): the parent's CURRENT gate settings and callback object, the inherited or default expression level,
    generation + 1, the parent's hash, the same log flags — and the real parent was left exactly as it was. -/
theorem c20_replicate_agrees_with_evaluated_source (allow cb rate inherit late silenced : Bool) :
    Gen.replicateTable.lookup (allow, cb, rate, inherit, late, silenced) =
      some (replScenario allow cb rate inherit late silenced) := by
  cases allow <;> cases cb <;> cases rate <;> cases inherit <;> cases late <;> cases silenced <;> decide

/-- The constructor's `for gene in genes: add_gene(gene)` with a duplicated name (first wins when immutable, last wins
    with `allow_mutations`), as the real constructor did it. -/
theorem c20_constructor_agrees_with_evaluated_source (allow : Bool) :
    Gen.constructTable.lookup allow = some (some (constructScenario allow)) := by
  cases allow <;> decide

/-- **`get_statistics` — evaluated.**  After a fixed history that logs approved and refused mutations, rollbacks, a
    re-add, a silencing and a replication with a requested mutation — under each `allow_mutations` setting, without a
    callback and with one that approves / refuses everything — the real `get_statistics()` of parent and child reports
    exactly the numbers of the model's `stats` (total_genes, generation, mutations_count, approved_mutations, SILENCED
    states), its `hash` is `get_hash()` and the child's `parent_hash` the parent's hash (checked by the evaluator). -/
theorem c20_statistics_agree_with_evaluated_source (allow : Bool) (ans : Option Ans) (h : ans ≠ some .raise) :
    Gen.statsTable.lookup (allow, ans) = some (some (statsScenario allow ans)) := by
  cases allow <;> rcases ans with _ | a
  · decide
  · cases a
    · decide
    · decide
    · exact absurd rfl h
  · decide
  · cases a
    · decide
    · decide
    · exact absurd rfl h

/-! ## Non-vacuity: concrete lineages and histories meeting the hypotheses -/

section Examples

/-- callback approves exactly "set gene 0 to 7" -/
private def envA : Env Nat :=
  { adv := fun _ _ n _ v _ => if n = 0 ∧ v = 7 then .approve else .refuse, rnd := fun _ _ _ => none, veq := fun a b => a == b, isNone := fun _ => false }
/-- callback approves every change of gene 0 -/
private def envB : Env Nat :=
  { adv := fun _ _ n _ _ _ => if n = 0 then .approve else .refuse, rnd := fun _ _ _ => none, veq := fun a b => a == b, isNone := fun _ => false }
/-- callback approves nothing -/
private def envNo : Env Nat := { adv := fun _ _ _ _ _ _ => .refuse, rnd := fun _ _ _ => none, veq := fun a b => a == b, isNone := fun _ => false }

private def gene0 : Gene Nat := ⟨0, 1, .structural, true, .normal⟩
private def gene1 : Gene Nat := ⟨1, 2, .conditional, false, .high⟩
private def parent : Genome Nat := newGenome false (some 0) false [gene0, gene1]
private def st0 : Store Nat := ⟨[parent], 0, 0⟩

private def hist : List (Op Nat) :=
  [.mutate 0 0 7, .add 0 ⟨0, 9, .dormant, false, .silenced⟩, .rollback 0 0, .replicate 0 [(0, 7), (1, 5)] true,
   .mutate 1 0 7, .setExpr 0 0 .silenced, .express 0 [1], .mutate 0 1 3]

/-- under `envNo` every setting with mutations disabled authorises nothing -/
local macro "unauth_envNo" : term =>
  `(fun (a : Bool) (c : Option Nat) (h : (!a) = true) =>
      (⟨by simpa using h, fun _ _ _ _ _ _ _ => by simp [envNo]⟩ : Unauth envNo a c))

/-- `c20_unauthorised_history_changes_nothing`: a history with a refused mutate, a refused re-add, a rollback,
    a replication with requested mutations, operations on the child — all hypotheses hold … -/
example : st0.genomes[0]? = some parent ∧ CallsUnder envNo (Unauth envNo) 0 st0 hist ∧
    ReAdds envNo 0 st0 hist := by
  refine ⟨rfl, callsUnder_of_B (P := fun a _ => !a) unauth_envNo _ (by decide), ?_⟩
  · simp only [ReAdds, hist, and_true]
    refine ⟨?_, ?_, ?_, ?_, ?_, ?_, ?_, ?_⟩ <;> intro x g h hg <;> first | cases h | skip
    -- the one `add`: gene 0 is present at that moment
    have : (step envNo st0 (Op.mutate 0 0 7)).1.genomes[0]? = some g := hg
    have hh : g = (refuseMut parent gene0 0 7 .user) := by
      have h2 : (step envNo st0 (Op.mutate 0 0 7)).1.genomes[0]? = some (refuseMut parent gene0 0 7 .user) := by decide
      rw [h2] at this; cases this; rfl
    subst hh; decide

/-- … and the history is not idle: this is what the calls return (refused, refused, nothing to roll back, child 1,
    refused, ok, config, refused) and the refusals are in the log -/
example : trace envNo st0 hist =
    [.ret false, .ret false, .ret false, .child 1, .ret false, .ret true, .config [(1, 2)], .ret false] ∧
    ((run envNo st0 hist).genomes.map fun g => (table g, g.log.map fun m => (m.gene, m.new, m.approved))) =
      [([(0, 1), (1, 2)], [(0, 7, false), (0, 9, false), (1, 3, false)]),
       ([(0, 1), (1, 2)], [(0, 7, false), (1, 5, false), (0, 7, false)])] := by decide

/-- … also with the public attributes re-assigned in between (another never-approving callback installed,
    mutations switched on and off again while nothing is called, the callback removed): the mutating calls all
    happen under settings that authorise nothing, and they are all refused -/
example :
    let h : List (Op Nat) := [.mutate 0 0 7, .assign 0 (.cb (some 5)), .mutate 0 0 7, .assign 0 (.allow true),
      .assign 0 (.allow false), .rollback 0 0, .replicate 0 [(0, 7)] true, .assign 0 (.cb none), .mutate 0 1 3,
      .assign 1 (.rate true), .mutate 1 0 7]
    CallsUnder envNo (Unauth envNo) 0 st0 h ∧ CallsUnder envNo (Unauth envNo) 1 st0 h ∧
    trace envNo st0 h = [.ret false, .assigned, .ret false, .assigned, .assigned, .ret false, .child 1, .assigned,
      .ret false, .assigned, .ret false] ∧
    (run envNo st0 h).genomes.map table = [[(0, 1), (1, 2)], [(0, 1), (1, 2)]] :=
  ⟨callsUnder_of_B (P := fun a _ => !a) unauth_envNo _ (by decide),
   callsUnder_of_B (P := fun a _ => !a) unauth_envNo _ (by decide), by decide, by decide⟩

/-- "bootstrap open, then lock": a genome built with mutations enabled is mutated (authorised, logged approved),
    then `allow_mutations = False` is assigned; from that moment `mutate` and `rollback_mutation` are refused and
    logged as unapproved, the value and the hash stay (`c20_assignment_exact`, then
    `c20_unauthorised_history_changes_nothing` from the state after the assignment); a child made after the lock
    is locked too -/
example :
    let opened : Store Nat := ⟨[newGenome true none false [gene0, gene1]], 0, 0⟩
    let h : List (Op Nat) := [.mutate 0 0 7, .assign 0 (.allow false), .mutate 0 0 9, .rollback 0 0,
      .replicate 0 [(0, 5)] true, .mutate 1 0 5]
    trace envNo opened h = [.ret true, .assigned, .ret false, .ret false, .child 1, .ret false] ∧
    ((run envNo opened h).genomes.map fun g => (table g, g.log.map fun m => (m.gene, m.orig, m.new, m.approved))) =
      [([(0, 7), (1, 2)], [(0, 1, 7, true), (0, 7, 9, false), (0, 7, 1, false)]),
       ([(0, 7), (1, 2)], [(0, 7, 5, false), (0, 7, 5, false)])] ∧
    CallsUnder envNo (Unauth envNo) 0 (run envNo opened (h.take 2)) (h.drop 2) :=
  ⟨by decide, by decide, callsUnder_of_B (P := fun a _ => !a) unauth_envNo _ (by decide)⟩

/-- `c20_stored_value_is_original_or_approved` / `c20_value_is_last_approved_logged_value` with a callback swapped
    in mid-history: under `envA` callback 0 approves (gene 0 := 7) only and callback 1 the complement … all calls
    happen with mutations disabled -/
example :
    let h : List (Op Nat) := [.mutate 0 0 7, .assign 0 (.cb (some 1)), .mutate 0 0 7, .mutate 0 1 4]
    CallsUnder envA (fun a _ => a = false) 0 st0 h ∧ trace envA st0 h = [.ret true, .assigned, .ret true, .ret false] :=
  ⟨callsUnder_of_B (P := fun a _ => !a) (fun a _ h => by simpa using h) _ (by decide), by decide⟩

/-- `c20_gate_changes_only_by_assignment` / `c20_fixed_gate_calls_under_initial_settings`: the first example history
    assigns nothing -/
example : NoAssign 0 hist ∧ NoAssign 1 hist := by unfold NoAssign; decide

/-- the same history under the callback that approves (gene 0 := 7): exactly that change goes through, in parent
    and child, gene 1 keeps its value (`c20_unapproved_gene_keeps_its_record`,
    `c20_stored_value_is_original_or_approved`, `c20_child_differs_only_in_authorised`) -/
example : trace envA st0 hist =
    [.ret true, .ret false, .ret false, .child 1, .ret true, .ret true, .config [(1, 2)], .ret false] ∧
    ((run envA st0 hist).genomes.map table) = [[(0, 7), (1, 2)], [(0, 7), (1, 2)]] := by decide

/-- `WF` holds of the example store; replication returns a child (hypotheses of the replication theorems) -/
example : WF st0 ∧ (step envA st0 (.replicate 0 [(0, 7), (1, 5)] true)).2 = .child 1 := by
  refine ⟨?_, by decide⟩
  intro g hg
  have : g = parent := by simpa [st0] using hg
  subst this
  exact newGenome_wf _ _ _ _

/-- `c20_rollback_restores` / `c20_rollback_restores_preceding_value`: approved mutation 1 → 7, a refused attempt
    on another gene in between, an expression change, then a successful rollback: the value is 1 again; a second
    rollback "restores the value that preceded the last approved mutation" — which now is the rollback itself — 7. -/
example :
    let h := [Op.mutate 0 0 7, .mutate 0 1 5, .setExpr 0 0 .low, .rollback 0 0]
    trace envB st0 h = [.ret true, .ret false, .ret true, .ret true] ∧
    (run envB st0 h).genomes.map table = [[(0, 1), (1, 2)]] ∧
    (run envB st0 (h ++ [.rollback 0 0])).genomes.map table = [[(0, 7), (1, 2)]] := by decide

/-- hypotheses of `c20_rollback_restores_preceding_value` on that history -/
example :
    (step envB st0 (.mutate 0 0 7)).2 = .ret true ∧
    (∀ m ∈ ((run envB (step envB st0 (.mutate 0 0 7)).1 [.mutate 0 1 5, .setExpr 0 0 .low]).genomes.map
        (fun g => g.log.drop (parent.log.length + 1))).flatten, ¬ (m.gene = 0 ∧ m.approved = true)) ∧
    (step envB (run envB (step envB st0 (.mutate 0 0 7)).1 [.mutate 0 1 5, .setExpr 0 0 .low]) (.rollback 0 0)).2
      = .ret true := by decide

/-- `c20_refused_rollback_logged_unapproved`: under `envA` the rollback (gene 0 back to 1) is not approved -/
example : trace envA st0 [.mutate 0 0 7, .rollback 0 0] = [.ret true, .ret false] ∧
    ((run envA st0 [.mutate 0 0 7, .rollback 0 0]).genomes.map fun g =>
      g.log.map fun m => (m.gene, m.orig, m.new, m.approved)) = [[(0, 1, 7, true), (0, 7, 1, false)]] := by decide

/-- `c20_express_exact`: silenced, dormant and un-named conditional genes are left out -/
example :
    let g : Genome Nat := newGenome true none false
      [⟨0, 1, .structural, true, .normal⟩, ⟨1, 2, .conditional, false, .high⟩, ⟨2, 3, .dormant, false, .normal⟩,
       ⟨3, 4, .regulatory, false, .silenced⟩, ⟨4, 5, .conditional, false, .low⟩]
    express g [4] = [(0, 1), (4, 5)] ∧ express g [] = [(0, 1)] := by decide

/-- `c20_canon_eq_iff_same_stored_values`: same map, different insertion order, same canonical list -/
example : canon (newGenome false none false [gene0, gene1]) = canon (newGenome false none false [gene1, gene0]) ∧
    table (newGenome false none false [gene0, gene1]) ≠ table (newGenome false none false [gene1, gene0]) := by
  decide

/-- `c20_unauthorised_child_equals_parent`: hypotheses hold for the example parent under the never-approving
    callback, with requested mutations on both genes -/
example : parent.allow = false ∧ NeverApproves envNo parent ∧
    (step envNo st0 (.replicate 0 [(0, 7), (1, 5)] false)).2 = .child 1 :=
  ⟨rfl, fun _ _ _ _ _ _ _ => by simp [envNo], by decide⟩

/-- `c20_unauthorised_lineage_keeps_hash`: a further history on parent (0), child (1) and a grandchild meets
    the `CallsUnder` and `ReAdds` hypotheses for both -/
example :
    CallsUnder envNo (Unauth envNo) 0 (step envNo st0 (.replicate 0 [(0, 7)] true)).1
      [.mutate 1 0 7, .rollback 0 0, .assign 1 (.cb none), .replicate 1 [(1, 5)] false, .mutate 2 1 5, .setExpr 0 1 .silenced] ∧
    CallsUnder envNo (Unauth envNo) 1 (step envNo st0 (.replicate 0 [(0, 7)] true)).1
      [.mutate 1 0 7, .rollback 0 0, .assign 1 (.cb none), .replicate 1 [(1, 5)] false, .mutate 2 1 5, .setExpr 0 1 .silenced] :=
  ⟨callsUnder_of_B (P := fun a _ => !a) unauth_envNo _ (by decide),
   callsUnder_of_B (P := fun a _ => !a) unauth_envNo _ (by decide)⟩

example :
    ReAdds envNo 0 (step envNo st0 (.replicate 0 [(0, 7)] true)).1
      [.mutate 1 0 7, .rollback 0 0, .replicate 1 [(1, 5)] false, .mutate 2 1 5, .setExpr 0 1 .silenced] ∧
    ReAdds envNo 1 (step envNo st0 (.replicate 0 [(0, 7)] true)).1
      [.mutate 1 0 7, .rollback 0 0, .replicate 1 [(1, 5)] false, .mutate 2 1 5, .setExpr 0 1 .silenced] := by
  constructor <;>
    (simp only [ReAdds, and_true]; refine ⟨?_, ?_, ?_, ?_, ?_⟩ <;> intro x g h <;> cases h)

/-- `c20_fresh_add_appends_gene`: a NEW name is accepted on an immutable genome -/
example : (addGene parent ⟨5, 0, .structural, false, .normal⟩).2 = true := by decide

end Examples

end Operon.Genome
