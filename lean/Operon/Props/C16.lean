import Operon.Lemmas.C16
import Operon.Gen.WiringFlow
/-!
# C16 — typed wiring
-/
namespace Operon.Wiring

/-- `required_capabilities` placeholder while the proofs are being written -/
theorem c16_placeholder : True := trivial

end Operon.Wiring
