import Operon.Lemmas.C16
import Operon.Gen.WiringFlow
/-!
# C16 — typed wiring: no type/integrity-violating flow; modules run once, in order

Property theorems only.  Model: `Operon/Model/Wiring.lean` (hand-written; tied to `operon_ai/core/wagent.py`
and `operon_ai/core/wiring_runtime.py` by the differential correspondence of `harness/vf/props/c16.py`, and by
the extractor E6: `Operon/Gen/WiringFlow.lean` holds the outcomes of the REAL `can_flow_to`, `require_flow_to`,
`connect`, `_coerce_output`, `_coerce_input` and of the executor's per-wire check on the complete table of data
types × integrity labels; the `_table` theorems below check every entry against the model).

Everything is stated for all diagrams (any number of modules and ports, any naturals as data types and
integrity levels), all handler tables `H` (handlers are arbitrary functions of the inputs they are shown,
returning raw or labelled values under any key set, or raising), all external-input assignments and both
`enforce_static_checks` settings.

`d.WF` = module names unique (`modules` is a dict).  `d.Accepted` = every wire joins existing ports and obeys
the flow rule; `c16_built_diagrams_accepted` shows this is what `add_module`/`connect` produce.
-/
namespace Operon.Wiring

/-! ## the flow rule -/

/-- `can_flow_to` is true, and `require_flow_to` returns, exactly when the data types are equal and the
    source integrity is at least the destination's; otherwise `require_flow_to` raises a WiringError. -/
theorem c16_flow_rule (s t : PortType) :
    (s.canFlowTo t = true ↔ s.dt = t.dt ∧ s.il ≥ t.il) ∧
    (s.requireFlowTo t = none ↔ s.dt = t.dt ∧ s.il ≥ t.il) ∧
    (∀ e, s.requireFlowTo t = some e → e.isWiringError = true) :=
  ⟨canFlowTo_iff s t, requireFlowTo_none_iff s t, fun _ h => requireFlowTo_isWiringError h⟩

/-- A connection between two existing ports is accepted exactly when source and destination data types are
    equal and the source integrity is at least the destination's.  Accepting appends exactly that wire;
    rejecting raises a WiringError and (the result carrying no diagram) changes nothing. -/
theorem c16_connect_iff (d : Diagram) (a p b q : Nat) :
    ((∃ d', d.connect a p b q = .ok d') ↔
      ∃ s t, d.outPort a p = some s ∧ d.inPort b q = some t ∧ s.dt = t.dt ∧ s.il ≥ t.il) ∧
    (∀ d', d.connect a p b q = .ok d' → d' = { modules := d.modules, wires := d.wires ++ [⟨a, p, b, q⟩] }) ∧
    (∀ e, d.connect a p b q = .error e → e.isWiringError = true) := by
  refine ⟨⟨?_, ?_⟩, ?_, fun e h => connect_err h⟩
  · rintro ⟨d', h⟩
    obtain ⟨s, t, hs, ht, e1, e2, -⟩ := connect_ok_iff.mp h
    exact ⟨s, t, hs, ht, e1, e2⟩
  · rintro ⟨s, t, hs, ht, e1, e2⟩
    exact ⟨_, connect_ok_iff.mpr ⟨s, t, hs, ht, e1, e2, rfl⟩⟩
  · intro d' h
    obtain ⟨s, t, -, -, -, -, hd⟩ := connect_ok_iff.mp h
    exact hd

/-- Whatever sequence of `add_module` / `connect` calls is made on an empty diagram (calls that raise leave it
    unchanged), interleaved with any number of direct removals from the public `wires` list (`wires.remove(w)`:
    re-wiring is a removal followed by a `connect`) and re-orderings of it: module names are unique, and every
    wire joins existing ports that satisfy the flow rule. -/
theorem c16_built_diagrams_accepted (ops : List BuildOp) :
    (Diagram.build ops).WF ∧ (Diagram.build ops).Accepted :=
  foldl_apply_preserves ops {} (by simp [Diagram.WF]) (by intro w hw; simp at hw)

/-! ## values on input ports -/

/-- In every execution — successful or raising — of a diagram whose wires were all accepted (or of ANY wire
    list when `enforce_static_checks` is on), for all handlers and all external inputs: every value recorded
    on an input port in the report, and every value any handler was shown, sits on a declared port of that
    module, has that port's data type and at least its required integrity. -/
theorem c16_delivered_values_typed (d : Diagram) (hwf : d.WF) (H : Nat → Option Handler)
    (ext : List (Nat × List (Nat × Val))) (enforce : Bool) (hG : enforce = true ∨ d.Accepted) :
    (∀ recs, (execute d H ext enforce).out = .ok recs → ∀ r ∈ recs, ∃ m, d.findMod r.name = some m ∧
      ∀ pv ∈ r.inputs, ∃ pt, m.inputs.lookup pv.1 = some pt ∧ pv.2.fits pt) ∧
    (∀ c ∈ (execute d H ext enforce).calls, ∃ m, d.findMod c.name = some m ∧
      ∀ pv ∈ c.inputs, ∃ pt, m.inputs.lookup pv.1 = some pt ∧ pv.2.fits pt) := by
  constructor
  · intro recs h r hr
    obtain ⟨st, mi, hinv, hrec, -⟩ := execute_ok (G := True) hwf (fun _ => hG) h
    subst hrec
    obtain ⟨m, hf, hin, -, -⟩ := hinv.recMod r hr
    refine ⟨m, hf, fun pv hpv => ?_⟩
    rw [hin] at hpv
    obtain ⟨pt, hl, hfit⟩ := hinv.fit r.name m hf pv hpv
    exact ⟨pt, hl, hfit trivial⟩
  · intro c hc
    obtain ⟨m, hf, -, -, hfit⟩ := (execute_callsOK (G := True) hwf (fun _ => hG)).2 c hc
    refine ⟨m, hf, fun pv hpv => ?_⟩
    obtain ⟨pt, hl, hf'⟩ := hfit pv hpv
    exact ⟨pt, hl, hf' trivial⟩

/-- In a successful run the value on the destination port of every wire is the value recorded on the wire's
    source port (same payload, same label). -/
theorem c16_delivered_value_is_source_output (d : Diagram) (hwf : d.WF) (H : Nat → Option Handler)
    (ext : List (Nat × List (Nat × Val))) (enforce : Bool) (recs : List Rec)
    (h : (execute d H ext enforce).out = .ok recs) :
    ∀ w ∈ d.wires, ∃ rs ∈ recs, ∃ rd ∈ recs, rs.name = w.srcM ∧ rd.name = w.dstM ∧
      ∃ v, rs.outputs.lookup w.srcP = some v ∧ (w.dstP, v) ∈ rd.inputs := by
  intro w hw
  obtain ⟨hsrc, hdst, -⟩ := (execute_ok_facts hwf h).2 w hw
  obtain ⟨st, mi, hinv, hrec, -⟩ := execute_ok (G := False) hwf (fun f => f.elim) h
  subst hrec
  obtain ⟨rs, hrs, hrsn, -, v, hlk, hmem⟩ := hinv.flowed w hw hsrc
  obtain ⟨rd, hrd, hrdn⟩ := mem_order.mp hdst
  obtain ⟨m, -, hin, -, -⟩ := hinv.recMod rd hrd
  refine ⟨rs, hrs, rd, hrd, hrsn, hrdn, v, hlk, ?_⟩
  rw [hin, hrdn]; exact hmem

/-! ## handler outputs -/

/-- If any handler invocation of a run returned, for a declared output port, an explicitly labelled value
    whose data type or integrity differs from the declaration (higher integrity counts as different), the run
    raised a WiringError.  No hypothesis on the diagram's wires or on `enforce_static_checks`. -/
theorem c16_mislabelled_output_rejected (d : Diagram) (hwf : d.WF) (H : Nat → Option Handler)
    (ext : List (Nat × List (Nat × Val))) (enforce : Bool)
    (c : Call) (hc : c ∈ (execute d H ext enforce).calls) (hbad : Mislabelled d H c) :
    ∃ e, (execute d H ext enforce).out = .error e ∧ e.isWiringError = true := by
  cases h : (execute d H ext enforce).out with
  | error e => exact ⟨e, rfl, (execute_fail (G := False) hwf (fun f => f.elim) h).2 c hc hbad⟩
  | ok recs =>
    obtain ⟨st, mi, hinv, -, hcalls, -⟩ := execute_ok (G := False) hwf (fun f => f.elim) h
    rw [← hcalls] at hc
    exact absurd hbad ((inv_calls hinv).2 c hc)

/-- In a successful run every recorded output is what the module's handler returned on the recorded inputs,
    coerced: it carries exactly the declared data type and integrity of its port, and an explicitly labelled
    return value was passed through unchanged.  A module without handler has no outputs. -/
theorem c16_recorded_outputs_exact (d : Diagram) (hwf : d.WF) (H : Nat → Option Handler)
    (ext : List (Nat × List (Nat × Val))) (enforce : Bool) (recs : List Rec)
    (h : (execute d H ext enforce).out = .ok recs) :
    ∀ r ∈ recs, ∃ m, d.findMod r.name = some m ∧ RecGood H m r ∧
      ∀ p v, r.outputs.lookup p = some v → ∃ pt, m.outputs.lookup p = some pt ∧ v.exact pt := by
  intro r hr
  obtain ⟨st, mi, hinv, hrec, -⟩ := execute_ok (G := False) hwf (fun f => f.elim) h
  subst hrec
  obtain ⟨m, hf, -, -, hg⟩ := hinv.recMod r hr
  refine ⟨m, hf, hg, ?_⟩
  intro p v hlk
  unfold RecGood at hg
  split at hg
  · rw [hg] at hlk; simp at hlk
  · obtain ⟨raw, -, -, hco⟩ := hg
    exact (coerceOutputs_ok hco).2.1 p v hlk

/-! ## scheduling -/

/-- In a successful run: the execution order is a permutation of the module names (every module exactly
    once); the handler invocations are exactly one per module that has a handler, in execution order, on
    exactly the recorded inputs; every module ran with all its declared input ports filled; and for every
    wire the source module comes strictly before the destination module in the execution order. -/
theorem c16_each_module_once_after_feeders (d : Diagram) (hwf : d.WF) (H : Nat → Option Handler)
    (ext : List (Nat × List (Nat × Val))) (enforce : Bool) (recs : List Rec)
    (h : (execute d H ext enforce).out = .ok recs) :
    (recs.map (·.name)).Perm (d.modules.map (·.name)) ∧ (recs.map (·.name)).Nodup ∧
    (execute d H ext enforce).calls =
      (recs.filter (fun r => (H r.name).isSome)).map (fun r => ⟨r.name, r.inputs⟩) ∧
    (∀ r ∈ recs, ∃ m, d.findMod r.name = some m ∧ ∀ pp ∈ m.inputs, hasKey pp.1 r.inputs = true) ∧
    (∀ w ∈ d.wires, (recs.map (·.name)).idxOf w.srcM < (recs.map (·.name)).idxOf w.dstM) := by
  obtain ⟨hperm, hwires⟩ := execute_ok_facts hwf h
  obtain ⟨st, mi, hinv, hrec, hcalls, -⟩ := execute_ok (G := False) hwf (fun f => f.elim) h
  subst hrec
  refine ⟨hperm, hinv.nodup, by rw [← hcalls]; exact hinv.callsEq, ?_, fun w hw => (hwires w hw).2.2⟩
  intro r hr
  obtain ⟨m, hf, -, hall, -⟩ := hinv.recMod r hr
  exact ⟨m, hf, hall⟩

/-- In every run, also one that raises: no handler is invoked twice, only modules of the diagram that have a
    handler are invoked, and each was invoked with every declared input port filled — no partially wired
    module runs. -/
theorem c16_no_partially_wired_module_runs (d : Diagram) (hwf : d.WF) (H : Nat → Option Handler)
    (ext : List (Nat × List (Nat × Val))) (enforce : Bool) :
    ((execute d H ext enforce).calls.map (·.name)).Nodup ∧
    ∀ c ∈ (execute d H ext enforce).calls, ∃ m, d.findMod c.name = some m ∧ (H c.name).isSome = true ∧
      ∀ pp ∈ m.inputs, hasKey pp.1 c.inputs = true := by
  obtain ⟨h1, h2⟩ := execute_callsOK (d := d) (H := H) (ext := ext) (enforce := enforce) (G := False) hwf
    (fun f => f.elim)
  refine ⟨h1, fun c hc => ?_⟩
  obtain ⟨m, hf, hh, hall, -⟩ := h2 c hc
  exact ⟨m, hf, hh, hall⟩

/-- Whatever `execute` raises is a WiringError, or the exception of a handler that itself raised, or the
    AttributeError caused by a handler that returned a truthy object that is not a mapping, or — only when some
    wire names a module or port that does not exist, which `connect` never allows — a KeyError.
    In particular the fuel of the model's loop (the number of modules) never runs out: the scheduling loop
    terminates within that many scans for every diagram. -/
theorem c16_only_wiring_errors (d : Diagram) (H : Nat → Option Handler)
    (ext : List (Nat × List (Nat × Val))) (enforce : Bool) (e : Err)
    (h : (execute d H ext enforce).out = .error e) :
    e ≠ .outOfFuel ∧
    (d.WiresExist → (∀ n hd ins, H n = some hd → hd ins ≠ .raise ∧ hd ins ≠ .nondict) →
      e.isWiringError = true) := by
  have hc := execute_errClass h
  constructor
  · rintro rfl
    rcases hc with hc | ⟨hc, -⟩ | ⟨hc, -⟩ | ⟨hc, -⟩ <;> cases hc
  · intro hex hnr
    rcases hc with hc | ⟨-, n, hd, ins, hH, hr⟩ | ⟨-, hne⟩ | ⟨-, n, hd, ins, hH, hr⟩
    · exact hc
    · exact absurd hr (hnr n hd ins hH).1
    · exact absurd hex hne
    · exact absurd hr (hnr n hd ins hH).2

/-- Diagrams that cannot be scheduled raise instead of looping or running anything partially wired:
    * an input port with two incoming wires, an input port with an incoming wire that is also given an external
      value (two sources), a module with outputs but no handler, or an input port with neither a wire nor an
      external value: `execute` raises before any handler is invoked (a WiringError when every wire joins
      existing ports);
    * a cycle in the wire graph (self-loops included): `execute` raises — a WiringError when every wire joins
      existing ports and no handler raises or returns a non-mapping — and no module on the cycle is ever invoked;
    and by `c16_only_wiring_errors` the loop always terminates, by `c16_no_partially_wired_module_runs` nothing
    partially wired ever ran, by `c16_every_call_after_its_feeders` nothing ran before a module feeding it. -/
theorem c16_unschedulable_raises_no_loop (d : Diagram) (hwf : d.WF) (H : Nat → Option Handler)
    (ext : List (Nat × List (Nat × Val))) (enforce : Bool) :
    (((∃ m p, 2 ≤ (d.incoming m p).length) ∨
      (∃ w ∈ d.wires, ∃ ins, (w.dstM, ins) ∈ ext ∧ w.dstP ∈ keys ins) ∨
      (∃ m ∈ d.modules, m.outputs ≠ [] ∧ H m.name = none) ∨
      (∃ m ∈ d.modules, ∃ pp ∈ m.inputs, d.incoming m.name pp.1 = [] ∧
        ∀ ins, (m.name, ins) ∈ ext → pp.1 ∉ keys ins)) →
      ∃ e, (execute d H ext enforce).out = .error e ∧ (execute d H ext enforce).calls = [] ∧
        (d.WiresExist → e.isWiringError = true)) ∧
    (∀ a, d.Reaches a a →
      (∃ e, (execute d H ext enforce).out = .error e ∧
        (d.WiresExist → (∀ n hd ins, H n = some hd → hd ins ≠ .raise ∧ hd ins ≠ .nondict) →
          e.isWiringError = true)) ∧
      (d.WiresExist → a ∉ (execute d H ext enforce).calls.map (·.name))) := by
  constructor
  · intro hcase
    have key : ∀ mi, extPhase d ext (fun _ => []) = .ok mi → preflight d H mi ≠ none := by
      intro mi hext hpre
      obtain ⟨-, h2, h3, h4⟩ := preflight_none hpre
      rcases hcase with ⟨m, p, hlen⟩ | ⟨w, hw, ins, hmem, hk⟩ | ⟨m, hm, hne, hH⟩ | ⟨m, hm, pp, hpp, hinc, hext'⟩
      · cases hl : d.incoming m p with
        | nil => simp [hl] at hlen
        | cons w ws =>
          have hw : w ∈ d.incoming m p := by simp [hl]
          simp only [Diagram.incoming, List.mem_filter, Bool.and_eq_true, beq_iff_eq] at hw
          have := h2 w hw.1
          rw [hw.2.1, hw.2.2] at this
          omega
      · have := (extPhase_has hext).2 w.dstM ins hmem w.dstP hk
        rw [h4 w hw] at this; cases this
      · have := (preflightModule_none (h3 m hm)).1 hne
        simp [hH] at this
      · rcases (preflightModule_none (h3 m hm)).2 pp hpp with h | h
        · exact h hinc
        · rcases extPhase_keys hext m.name pp.1 h with h | ⟨ins, hmem, hk⟩
          · simp [hasKey] at h
          · exact hext' ins hmem hk
    obtain ⟨e, he, hc, hk⟩ := execute_preflight (enforce := enforce) key
    refine ⟨e, he, hc, fun hex => ?_⟩
    rcases hk with hk | ⟨-, hne⟩
    · exact hk
    · exact absurd hex hne
  · intro a ha
    refine ⟨?_, fun hex => cycle_never_called hwf hex ha⟩
    cases h : (execute d H ext enforce).out with
    | error e => exact ⟨e, rfl, (c16_only_wiring_errors d H ext enforce e h).2⟩
    | ok recs =>
      have := reaches_idx (fun w hw => ((execute_ok_facts hwf h).2 w hw).2.2) ha
      omega

/-- In every run — successful or raising — of a diagram whose wires join existing ports (so of every accepted
    diagram), for all handlers, external inputs and both enforcement settings: whenever a handler is invoked, the
    handler of the source module of every wire into its module has been invoked before, and the value the
    invoked handler sees on the wire's destination port is what that earlier invocation returned for the wire's
    source port (coerced to the declared label).  No module runs before a module feeding it, also not in a run
    that fails later.  (`FedBy d H w s c`: `s` is an invocation of `w`'s source module whose handler returned, for
    `w.srcP`, the value `c` saw on `w.dstP`.) -/
theorem c16_every_call_after_its_feeders (d : Diagram) (hwf : d.WF) (hex : d.WiresExist)
    (H : Nat → Option Handler) (ext : List (Nat × List (Nat × Val))) (enforce : Bool) :
    ∀ pre c post, (execute d H ext enforce).calls = pre ++ c :: post →
      ∀ w ∈ d.wires, w.dstM = c.name → ∃ s ∈ pre, FedBy d H w s c :=
  execute_callsAfter hwf hex

/-- Duplicate sources never get as far as a delivery: no run of any diagram, with any handlers and external
    inputs, ends in the executor's per-delivery "Multiple values for input" error — two wires into one port, and
    a wire plus an external value, are both refused by the pre-flight checks, before any handler is invoked
    (`c16_unschedulable_raises_no_loop`).  The guard in the delivery loop is unreachable. -/
theorem c16_duplicate_sources_never_reach_delivery (d : Diagram) (H : Nat → Option Handler)
    (ext : List (Nat × List (Nat × Val))) (enforce : Bool) :
    (execute d H ext enforce).out ≠ .error .multipleValues :=
  execute_ne_mv

/-- The dicts of a registered `ModuleSpec` can be edited in place after `add_module` and after `connect`
    (the dataclass is frozen, its dicts are not): ports relabelled, retyped, removed, added.  Whatever sequence
    of such edits was made, the wires stay as they were, and with `enforce_static_checks` on (the default) every
    value recorded on an input port of a successful run, and every value any handler was shown in any run, has
    the data type and at least the integrity that the port declares NOW — a wire that `connect` once accepted
    and that the edited declarations no longer allow is stopped at run time. -/
theorem c16_edited_specs_still_checked (d : Diagram) (hwf : d.WF) (edits : List (Nat × SpecEdit))
    (H : Nat → Option Handler) (ext : List (Nat × List (Nat × Val))) :
    (d.editAll edits).wires = d.wires ∧
    (∀ recs, (execute (d.editAll edits) H ext true).out = .ok recs → ∀ r ∈ recs, ∃ m,
      (d.editAll edits).findMod r.name = some m ∧
      ∀ pv ∈ r.inputs, ∃ pt, m.inputs.lookup pv.1 = some pt ∧ pv.2.fits pt) ∧
    (∀ c ∈ (execute (d.editAll edits) H ext true).calls, ∃ m, (d.editAll edits).findMod c.name = some m ∧
      ∀ pv ∈ c.inputs, ∃ pt, m.inputs.lookup pv.1 = some pt ∧ pv.2.fits pt) :=
  ⟨editAll_wires d edits,
   c16_delivered_values_typed (d.editAll edits) (editAll_wf hwf edits) H ext true (Or.inl rfl)⟩

/-- Liveness, the converse of `c16_unschedulable_raises_no_loop`: if the external inputs are valid, the
    pre-flight checks pass (unique wire per port, a handler for every module with outputs, a source for every
    port), no port is fed both by a wire and externally, the wire graph has no cycle, all wires were accepted
    and every handler answers every input with exactly its declared ports and honest labels — then `execute`
    returns a report (and by the theorems above that report runs every module exactly once, in wire order,
    on well-typed values).  So the other theorems are not about an executor that always raises. -/
theorem c16_schedulable_diagram_runs (d : Diagram) (H : Nat → Option Handler)
    (ext : List (Nat × List (Nat × Val))) (enforce : Bool) (mi : MInputs)
    (hext : extPhase d ext (fun _ => []) = .ok mi) (hs : Schedulable d H mi) :
    ∃ recs, (execute d H ext enforce).out = .ok recs :=
  execute_live hext hs

/-- `register_module` refuses exactly the names that are not modules of the diagram (a WiringError), and otherwise
    installs the handler for that module and no other. -/
theorem c16_register_module (d : Diagram) (H : Nat → Option Handler) (n : Nat) (h : Handler) :
    ((∃ e, registerModule d H n h = .error e) ↔ d.findMod n = none) ∧
    (∀ e, registerModule d H n h = .error e → e.isWiringError = true) ∧
    (∀ H', registerModule d H n h = .ok H' → H' n = some h ∧ ∀ k, k ≠ n → H' k = H k) := by
  unfold registerModule
  cases hf : d.findMod n with
  | none => simp [Err.isWiringError]
  | some m =>
    simp only [Option.isNone_some, Bool.false_eq_true, if_false]
    refine ⟨by simp, by simp, ?_⟩
    intro H' hH
    cases hH
    exact ⟨by simp, fun k hk => by simp [hk]⟩

/-! ## end to end: diagrams built through the public API, no hypothesis left -/

/-- Whatever sequence of `add_module` / `connect` calls — and of wires taken out of `diagram.wires` again, i.e.
    re-wirings between two runs — built the diagram, whatever the handlers do, whatever the
    external inputs are and whether or not `enforce_static_checks` is on: in every run, successful or raising,
    (1) every value recorded on an input port and every value any handler is shown has that port's data type and at
    least its required integrity, (2) every handler invocation comes after an invocation of each module wired into
    its module and saw that module's output, (3) no handler is invoked twice and none with a declared port unfilled,
    (4) a handler that mislabels a declared output makes the run raise a WiringError. -/
theorem c16_api_built_diagrams_end_to_end (ops : List BuildOp) (H : Nat → Option Handler)
    (ext : List (Nat × List (Nat × Val))) (enforce : Bool) :
    let d := Diagram.build ops
    (∀ recs, (execute d H ext enforce).out = .ok recs → ∀ r ∈ recs, ∃ m, d.findMod r.name = some m ∧
      ∀ pv ∈ r.inputs, ∃ pt, m.inputs.lookup pv.1 = some pt ∧ pv.2.fits pt) ∧
    (∀ c ∈ (execute d H ext enforce).calls, ∃ m, d.findMod c.name = some m ∧
      ∀ pv ∈ c.inputs, ∃ pt, m.inputs.lookup pv.1 = some pt ∧ pv.2.fits pt) ∧
    (∀ pre c post, (execute d H ext enforce).calls = pre ++ c :: post →
      ∀ w ∈ d.wires, w.dstM = c.name → ∃ s ∈ pre, FedBy d H w s c) ∧
    ((execute d H ext enforce).calls.map (·.name)).Nodup ∧
    (∀ c ∈ (execute d H ext enforce).calls, ∃ m, d.findMod c.name = some m ∧ (H c.name).isSome = true ∧
      ∀ pp ∈ m.inputs, hasKey pp.1 c.inputs = true) ∧
    (∀ c ∈ (execute d H ext enforce).calls, Mislabelled d H c →
      ∃ e, (execute d H ext enforce).out = .error e ∧ e.isWiringError = true) := by
  intro d
  obtain ⟨hwf, hacc⟩ := c16_built_diagrams_accepted ops
  obtain ⟨t1, t2⟩ := c16_delivered_values_typed d hwf H ext enforce (Or.inr hacc)
  obtain ⟨n1, n2⟩ := c16_no_partially_wired_module_runs d hwf H ext enforce
  exact ⟨t1, t2, c16_every_call_after_its_feeders d hwf hacc.wiresExist H ext enforce, n1, n2,
    fun c hc hbad => c16_mislabelled_output_rejected d hwf H ext enforce c hc hbad⟩

/-- The public containers of an accepted diagram edited directly between two runs: taking a wire out
    (`wires.remove`), re-ordering the wires, overwriting a wire slot with a wire that obeys the flow rule on the
    current declarations, and deleting a module that no wire touches all yield a diagram that is again accepted
    (unique names, every wire between existing ports and obeying the flow rule) — so every theorem about accepted
    diagrams speaks about the run AFTER the edit as well, on the wires as they are then. -/
theorem c16_rewired_diagrams_stay_accepted (d : Diagram) (hwf : d.WF) (hacc : d.Accepted) :
    (∀ w, (d.removeWire w).WF ∧ (d.removeWire w).Accepted) ∧
    (d.reverseWires.WF ∧ d.reverseWires.Accepted) ∧
    (∀ i w, d.WireOK w → (d.setWire i w).WF ∧ (d.setWire i w).Accepted) ∧
    (∀ n, (∀ w ∈ d.wires, w.srcM ≠ n ∧ w.dstM ≠ n) → (d.delModule n).WF ∧ (d.delModule n).Accepted) :=
  ⟨fun w => removeWire_preserves w hwf hacc, reverseWires_preserves hwf hacc,
   fun i w hw => setWire_preserves i w hw hwf hacc, fun n hfree => delModule_preserves n hfree hwf hacc⟩

/-- Re-wiring an input port: the wire `w` is taken out of an accepted diagram and `connect` accepts another source
    `a.p` for the same destination port.  In every run of the re-wired diagram — successful or raising, any handlers,
    any external inputs, either enforcement setting, and whatever ran before on the old wiring, `execute` being a
    function of the diagram as it is NOW — whenever the destination module is invoked, the NEW source module has been
    invoked before and the value on the port is what that invocation returned for `a.p`; and a value of the old
    source can only be there if the old wire is still in the list a second time. -/
theorem c16_rewired_run_follows_current_wires (d : Diagram) (hwf : d.WF) (hacc : d.Accepted) (w : Wire)
    (a p : Nat) (d' : Diagram) (h : (d.removeWire w).connect a p w.dstM w.dstP = .ok d')
    (H : Nat → Option Handler) (ext : List (Nat × List (Nat × Val))) (enforce : Bool) :
    d'.WF ∧ d'.Accepted ∧ d'.wires = d.wires.erase w ++ [⟨a, p, w.dstM, w.dstP⟩] ∧
    ∀ pre c post, (execute d' H ext enforce).calls = pre ++ c :: post → c.name = w.dstM →
      ∃ s ∈ pre, FedBy d' H ⟨a, p, w.dstM, w.dstP⟩ s c := by
  obtain ⟨hwf1, hacc1⟩ := removeWire_preserves w hwf hacc
  obtain ⟨hwf', hacc'⟩ := connect_preserves h hwf1 hacc1
  have hd' := (c16_connect_iff (d.removeWire w) a p w.dstM w.dstP).2.1 d' h
  have hwires : d'.wires = d.wires.erase w ++ [⟨a, p, w.dstM, w.dstP⟩] := by rw [hd']; rfl
  refine ⟨hwf', hacc', hwires, fun pre c post hc hn => ?_⟩
  exact c16_every_call_after_its_feeders d' hwf' hacc'.wiresExist H ext enforce pre c post hc
    ⟨a, p, w.dstM, w.dstP⟩ (by rw [hwires]; simp) hn.symm

/-- What the pre-flight checks of `execute` demand, in the words of the property: they pass exactly when every
    wire starts at an existing module, no input port has two wires, no wired port is also given an external value,
    every module with outputs has a handler, and every input port has a wire or an external value.  (So the
    hypothesis `pre` of `c16_schedulable_diagram_runs` is a statement about the diagram, not about the model.) -/
theorem c16_preflight_passes_iff (d : Diagram) (H : Nat → Option Handler) (mi : MInputs) :
    preflight d H mi = none ↔
      (∀ w ∈ d.wires, (d.findMod w.srcM).isSome = true) ∧
      (∀ w ∈ d.wires, (d.incoming w.dstM w.dstP).length ≤ 1) ∧
      (∀ w ∈ d.wires, hasKey w.dstP (mi w.dstM) = false) ∧
      (∀ m ∈ d.modules, m.outputs ≠ [] → (H m.name).isSome = true) ∧
      (∀ m ∈ d.modules, ∀ pp ∈ m.inputs, d.incoming m.name pp.1 ≠ [] ∨ hasKey pp.1 (mi m.name) = true) := by
  rw [preflight_iff]
  exact ⟨fun h => ⟨h.srcExists, h.uniq, h.notBoth, h.handlers, h.sources⟩,
    fun ⟨a, b, c, e, f⟩ => ⟨a, b, c, e, f⟩⟩

/-! ## payloads -/

/-- The executor never looks into a payload.  Rename the payloads by ANY function `f` — in the external inputs and in
    everything the handlers return (`Commutes f H H'`: `H'` answers renamed inputs with what `H` answers, renamed) —
    and the run is the same run with the payloads renamed: the same modules in the same order, the same handler
    invocations, the same data types and integrity labels on every port, the same exception if it raises.  So whether a
    payload is an int, `None`, `False`, an empty list, a NaN, an object whose `==` or `bool()` raises or a look-alike of
    `TypedValue` cannot matter to typing, scheduling or rejection: every other theorem here, stated over payloads that
    are naturals, speaks about payloads of any kind. -/
theorem c16_payloads_are_opaque (f : Nat → Nat) (H H' : Nat → Option Handler) (hc : Commutes f H H') (d : Diagram)
    (ext : List (Nat × List (Nat × Val))) (enforce : Bool) :
    execute d H' (mapExt f ext) enforce = (execute d H ext enforce).mapP f ∧
    ((execute d H' (mapExt f ext) enforce).calls.map (·.name) = (execute d H ext enforce).calls.map (·.name)) ∧
    (∀ e, (execute d H' (mapExt f ext) enforce).out = .error e ↔ (execute d H ext enforce).out = .error e) := by
  have h := execute_mapP hc d ext enforce
  refine ⟨h, ?_, fun e => ?_⟩
  · rw [h]; simp [Result.mapP, Call.mapP, List.map_map, Function.comp_def]
  · rw [h]
    cases ho : (execute d H ext enforce).out with
    | ok recs => simp [Result.mapP, ho]
    | error e' => simp [Result.mapP, ho]

/-! ## capabilities -/

/-- Required capabilities are the union over the modules (as a set: no repetitions). -/
theorem c16_capabilities_union (d : Diagram) :
    (∀ c, c ∈ d.requiredCaps ↔ ∃ m ∈ d.modules, c ∈ m.caps) ∧ d.requiredCaps.Nodup := by
  rw [requiredCaps_eq]
  exact ⟨fun c => by rw [mem_foldl_caps]; simp, nodup_foldl_caps (by simp)⟩

/-! ## the extracted tables (E6): the real functions, evaluated on every data type × integrity label,
    agree with the model entry by entry.  `decide` over the complete finite table. -/

section tables
open Operon.Gen.WiringFlow

private def quads : List (Nat × Nat × Nat × Nat) :=
  (List.range nDT).flatMap fun a => (List.range nIL).flatMap fun b =>
  (List.range nDT).flatMap fun c => (List.range nIL).map fun d => (a, b, c, d)

private def tab (f : PortType → PortType → Outcome) : List Row :=
  quads.map fun (a, b, c, d) => ⟨a, b, c, d, f ⟨a, b⟩ ⟨c, d⟩⟩

private def rawTab (f : PortType → Outcome) : List RawRow :=
  (List.range nDT).flatMap fun c => (List.range nIL).map fun d => ⟨c, d, f ⟨c, d⟩⟩

private def ofBool (s : PortType) (b : Bool) : Outcome := if b then .accepted s.dt s.il else .rejected

private def ofCoerce : Except Err TV → Outcome
  | .ok v => .accepted v.dt v.il
  | .error e => if e.isWiringError then .rejected else .unknown

private def twoModules (s t : PortType) : Diagram :=
  { modules := [⟨0, [], [(0, s)], []⟩, ⟨1, [(0, t)], [], []⟩], wires := [] }

private def connectProbe (s t : PortType) : Outcome :=
  match (twoModules s t).connect 0 0 1 0 with
  | .ok d => if d.wires = [⟨0, 0, 1, 0⟩] then .accepted s.dt s.il else .unknown
  | .error e => if e.isWiringError then .rejected else .unknown

private def wireProbe (enforce : Bool) (s t : PortType) : Outcome :=
  let d : Diagram := { modules := (twoModules s t).modules, wires := [⟨0, 0, 1, 0⟩] }
  match (execute d (fun n => if n = 0 then some (fun _ => .ret [(0, .raw 7)]) else none) [] enforce).out with
  | .ok [_, r] => (match r.inputs with | [(0, v)] => .accepted v.dt v.il | _ => .unknown)
  | .ok _ => .unknown
  | .error e => if e.isWiringError then .rejected else .unknown

/-- destination module declared first, its port wired from module 0 and also given an external value -/
private def wireAndExternalProbe (s t : PortType) : Outcome :=
  let d : Diagram := { modules := [⟨1, [(0, t)], [], []⟩, ⟨0, [], [(0, s)], []⟩], wires := [⟨0, 0, 1, 0⟩] }
  let r := execute d (fun n => if n = 0 then some (fun _ => .ret [(0, .raw 7)]) else some (fun _ => .ret []))
    [(1, [(0, .raw 9)])] true
  match r.out with
  | .ok _ => .unknown
  | .error e => if e.isWiringError && r.calls.isEmpty then .rejected else .unknown

/-- the enums are not empty (an extractor that found nothing fails here) -/
theorem c16_table_domain : 0 < nDT ∧ 0 < nIL := by decide

theorem c16_table_can_flow_to :
    Gen.WiringFlow.canFlowTo = tab (fun s t => ofBool s (s.canFlowTo t)) := by decide +kernel

theorem c16_table_require_flow_to :
    Gen.WiringFlow.requireFlowTo = tab (fun s t => ofBool s (s.requireFlowTo t).isNone) := by decide +kernel

theorem c16_table_connect : Gen.WiringFlow.connect = tab connectProbe := by decide +kernel

theorem c16_table_coerce_output :
    Gen.WiringFlow.coerceOutput = tab (fun s t => ofCoerce (Wiring.coerceOutput (.typed ⟨s.dt, s.il, 41⟩) t)) := by
  decide +kernel

theorem c16_table_coerce_input :
    Gen.WiringFlow.coerceInput = tab (fun s t => ofCoerce (Wiring.coerceInput (.typed ⟨s.dt, s.il, 41⟩) t)) := by
  decide +kernel

theorem c16_table_wire_checked : Gen.WiringFlow.wireChecked = tab (wireProbe true) := by decide +kernel

theorem c16_table_wire_unchecked : Gen.WiringFlow.wireUnchecked = tab (wireProbe false) := by decide +kernel

/-- the repaired pre-flight check on the real code: for every pair of labels, a port with a wire and an external
    value makes `execute` raise a WiringError before any handler is invoked, as in the model -/
theorem c16_table_wire_and_external : Gen.WiringFlow.wireAndExternal = tab wireAndExternalProbe := by decide +kernel

/-- the diagram of one `schedule` row: three modules with one input and one output port each, declared in the order
    `perm`, wired as `src` says; every module has a handler; unfed ports get an external value -/
private def schedProbe (perm : List Nat) (src : List (Option Nat)) : Bool × List Nat :=
  let p : PortType := ⟨0, 0⟩
  let fed : List (Nat × Option Nat) := (List.range src.length).zip src
  let d : Diagram :=
    { modules := perm.map fun m => ⟨m, [(0, p)], [(0, p)], []⟩,
      wires := fed.filterMap fun (b, s) => s.map fun a => ⟨a, 0, b, 0⟩ }
  let ext : List (Nat × List (Nat × Val)) := fed.filterMap fun (b, s) => if s.isNone then some (b, [(0, .raw 5)]) else none
  let r := execute d (fun m => some (fun _ => .ret [(0, .raw m)])) ext true
  match r.out with
  | .ok recs => (true, recs.map (·.name))
  | .error _ => (false, r.calls.map (·.name))

/-- the real scheduler, run by E6 on all 6 declaration orders × 4³ ways of feeding three modules (cycles, self loops,
    chains, fan-out, external values), does what the model does: the same runs succeed, in the same execution order,
    and a raising run has invoked the same handlers in the same order -/
theorem c16_table_schedule :
    Gen.WiringFlow.schedule.all (fun row =>
      row.known && (schedProbe row.perm row.src == (row.ok, row.log))) = true ∧
    Gen.WiringFlow.schedule.length = 384 := by
  constructor
  · decide +kernel
  · decide +kernel

/-- the chain 0 → 1 → 2 declared 2, 1, 0 with a handler registered for every module (the sink's returns nothing): whether the
    run succeeds, the execution order, the handler invocations -/
private def handlerObjProbe : Bool × List Nat × List Nat :=
  let p : PortType := ⟨0, 0⟩
  let d : Diagram :=
    { modules := [⟨2, [(0, p)], [], []⟩, ⟨1, [(0, p)], [(0, p)], []⟩, ⟨0, [], [(0, p)], []⟩],
      wires := [⟨0, 0, 1, 0⟩, ⟨1, 0, 2, 0⟩] }
  let r := execute d (fun m => some (fun _ => .ret (if m = 2 then [] else [(0, .raw m)]))) [] true
  match r.out with
  | .ok recs => (true, recs.map (·.name), r.calls.map (·.name))
  | .error _ => (false, [], r.calls.map (·.name))

/-- "every module runs exactly once" does not depend on what kind of callable the registered handler IS: the real
    `execute`, run by E6 with the handler of the source / inner / sink module of a chain given as a function, a lambda,
    a bound method, a `functools.partial`, a callable object, and as callable objects whose OWN TRUTH VALUE IS FALSE
    (`__bool__` False, `__len__` 0, a collector empty before its first run, an empty list / dict subclass with
    `__call__`), does what the model does with "a handler is registered": the run succeeds, order 0, 1, 2, each
    handler invoked exactly once in that order (the model's handler table knows presence only - `is not None`) -/
theorem c16_table_handler_objects :
    Gen.WiringFlow.handlerObjects.all (fun row =>
      row.known && ((row.ok, row.order, row.calls) == handlerObjProbe)) = true ∧
    handlerObjProbe = (true, [0, 1, 2], [0, 1, 2]) ∧
    Gen.WiringFlow.handlerObjects.length = 30 ∧
    (Gen.WiringFlow.handlerObjects.map (·.kind)).eraseDups.length = 10 := by
  refine ⟨?_, ?_, ?_, ?_⟩ <;> decide +kernel

theorem c16_table_coerce_output_raw :
    Gen.WiringFlow.coerceOutputRaw = rawTab (fun t => ofCoerce (Wiring.coerceOutput (.raw 13) t)) := by
  decide +kernel

theorem c16_table_coerce_input_raw :
    Gen.WiringFlow.coerceInputRaw = rawTab (fun t => ofCoerce (Wiring.coerceInput (.raw 13) t)) := by
  decide +kernel

end tables

/-! ## Non-vacuity: concrete diagrams and runs meeting the hypotheses -/

section examples

/-- source 0 (out 0 : type 0, TRUSTED) → filter 1 (in 0 : type 0, VALIDATED; out 0 : type 1, VALIDATED) → sink 2
    (in 0 : type 1, UNTRUSTED; in 1 : type 0 external).  Declared in the order 2, 1, 0 so that scheduling needs
    three scans. -/
private def exOps : List BuildOp :=
  [.addModule ⟨2, [(0, ⟨1, 0⟩), (1, ⟨0, 0⟩)], [], [3]⟩,
   .addModule ⟨1, [(0, ⟨0, 1⟩)], [(0, ⟨1, 1⟩)], [1, 3]⟩,
   .addModule ⟨0, [], [(0, ⟨0, 2⟩)], [0]⟩,
   .connect 0 0 1 0, .connect 1 0 2 0,
   .connect 1 0 1 0]   -- rejected: type 1 into type 0

private def exD : Diagram := Diagram.build exOps

private def exH : Nat → Option Handler := fun n =>
  if n = 0 then some (fun _ => .ret [(0, .raw 5)])
  else if n = 1 then some (fun ins => .ret [(0, .typed ⟨1, 1, (ins.map (·.2.payload)).foldl (· + ·) 0 + 1⟩)])
  else none

/-- handler of module 1 claims TRUSTED on a port declared VALIDATED -/
private def exHbad : Nat → Option Handler := fun n =>
  if n = 1 then some (fun _ => .ret [(0, .typed ⟨1, 2, 9⟩)]) else exH n

private def exExt : List (Nat × List (Nat × Val)) := [(2, [(1, .typed ⟨0, 2, 8⟩)])]

/-- what a run lets the caller see, in a form `decide` can compare -/
private def view (r : Result) : Option Err × List Nat × List (List (Nat × TV)) × List Nat :=
  match r.out with
  | .ok recs => (none, recs.map (·.name), recs.map (·.inputs), r.calls.map (·.name))
  | .error e => (some e, [], [], r.calls.map (·.name))

example : exD.wires = [⟨0, 0, 1, 0⟩, ⟨1, 0, 2, 0⟩] ∧ exD.modules.map (·.name) = [2, 1, 0] := by decide

example : exD.WF ∧ exD.Accepted := c16_built_diagrams_accepted exOps

/-- a successful run of an accepted diagram with both enforcement settings: the hypotheses of
    `c16_delivered_values_typed`, `c16_each_module_once_after_feeders`, `c16_recorded_outputs_exact` and
    `c16_delivered_value_is_source_output` are met, and the order is the dependency order, not the dict order -/
example :
    view (execute exD exH exExt true) =
      (none, [0, 1, 2], [[], [(0, ⟨0, 2, 5⟩)], [(1, ⟨0, 2, 8⟩), (0, ⟨1, 1, 6⟩)]], [0, 1]) ∧
    view (execute exD exH exExt false) =
      (none, [0, 1, 2], [[], [(0, ⟨0, 2, 5⟩)], [(1, ⟨0, 2, 8⟩), (0, ⟨1, 1, 6⟩)]], [0, 1]) :=
  ⟨by decide, by decide⟩

/-- a mislabelling handler invocation: the hypotheses of `c16_mislabelled_output_rejected` are met, and the
    run raises after having invoked modules 0 and 1 only -/
example : ∃ c ∈ (execute exD exHbad exExt false).calls, Mislabelled exD exHbad c :=
  ⟨⟨1, [(0, ⟨0, 2, 5⟩)]⟩, by decide,
    ⟨1, [(0, ⟨0, 1⟩)], [(0, ⟨1, 1⟩)], [1, 3]⟩, fun _ => .ret [(0, .typed ⟨1, 2, 9⟩)], [(0, .typed ⟨1, 2, 9⟩)],
    (0, ⟨1, 1⟩), ⟨1, 2, 9⟩, by decide, rfl, rfl, by decide, by decide, by simp [TV.exact]⟩

example : view (execute exD exHbad exExt false) = (some .outputIntegrity, [], [], [0, 1]) := by decide

/-- the three pre-flight cases and the cycle case of `c16_unschedulable_raises_no_loop` are satisfiable -/
private def exDup : Diagram :=
  Diagram.build [.addModule ⟨0, [], [(0, ⟨0, 1⟩), (1, ⟨0, 1⟩)], []⟩, .addModule ⟨1, [(0, ⟨0, 1⟩)], [], []⟩,
    .connect 0 0 1 0, .connect 0 1 1 0]

example : ∃ m p, 2 ≤ (exDup.incoming m p).length := ⟨1, 0, by decide⟩
example : ∃ m ∈ exD.modules, m.outputs ≠ [] ∧ (fun _ => none : Nat → Option Handler) m.name = none :=
  ⟨⟨0, [], [(0, ⟨0, 2⟩)], [0]⟩, by decide, by decide, rfl⟩
example : ∃ m ∈ exD.modules, ∃ pp ∈ m.inputs, exD.incoming m.name pp.1 = [] ∧
    ∀ ins, (m.name, ins) ∈ ([] : List (Nat × List (Nat × Val))) → pp.1 ∉ keys ins :=
  ⟨⟨2, [(0, ⟨1, 0⟩), (1, ⟨0, 0⟩)], [], [3]⟩, by decide, (1, ⟨0, 0⟩), by decide, by decide, by simp⟩

example : ∃ w ∈ exD.wires, ∃ ins, (w.dstM, ins) ∈ [(1, [(0, Val.raw 3)])] ∧ w.dstP ∈ keys ins :=
  ⟨⟨0, 0, 1, 0⟩, by decide, [(0, .raw 3)], by decide, by decide⟩

/-- the repaired defect (`C16-external-and-wire-runs-early`): module 1's port 0 is wired from module 0 and also given
    an external value.  Module 1 is declared before module 0; before the repair it ran on the external value,
    then module 0 ran, then the delivery raised.  Now nothing runs. -/
example : view (execute exD exH [(1, [(0, .raw 3)]), (2, [(1, .raw 8)])] true) =
    (some .multipleSources, [], [], []) := by decide

/-- `c16_every_call_after_its_feeders` on the successful example run: the invocation of module 1 comes after
    the one of module 0 and saw its output -/
example : (execute exD exH exExt true).calls = [⟨0, []⟩] ++ ⟨1, [(0, ⟨0, 2, 5⟩)]⟩ :: [] ∧
    FedBy exD exH ⟨0, 0, 1, 0⟩ ⟨0, []⟩ ⟨1, [(0, ⟨0, 2, 5⟩)]⟩ :=
  ⟨by decide, rfl, ⟨0, [], [(0, ⟨0, 2⟩)], [0]⟩, fun _ => .ret [(0, .raw 5)], [(0, .raw 5)], [(0, ⟨0, 2, 5⟩)],
    ⟨0, 2, 5⟩, by decide, rfl, rfl, rfl, by decide, by decide⟩

private def exCyc : Diagram :=
  Diagram.build [.addModule ⟨0, [(0, ⟨0, 0⟩)], [(0, ⟨0, 0⟩)], []⟩, .addModule ⟨1, [(0, ⟨0, 0⟩)], [(0, ⟨0, 0⟩)], []⟩,
    .connect 0 0 1 0, .connect 1 0 0 0]

example : exCyc.Reaches 0 0 :=
  .step ⟨0, 0, 1, 0⟩ (by decide) (.wire ⟨1, 0, 0, 0⟩ (by decide))

/-- and the cyclic diagram indeed raises "cannot resolve" without invoking anything -/
example : view (execute exCyc (fun _ => some (fun _ => .ret [(0, .raw 1)])) [] true) =
    (some .cannotResolve, [], [], []) := by decide

/-- a cycle {0, 1} fed from outside by module 2: module 2 runs, the modules on the cycle are never invoked, the run
    raises "cannot resolve" (the cycle case of `c16_unschedulable_raises_no_loop` with a non-empty invocation log) -/
private def exCyc2 : Diagram :=
  Diagram.build [.addModule ⟨0, [(0, ⟨0, 0⟩), (1, ⟨0, 0⟩)], [(0, ⟨0, 0⟩)], []⟩,
    .addModule ⟨1, [(0, ⟨0, 0⟩)], [(0, ⟨0, 0⟩)], []⟩, .addModule ⟨2, [], [(0, ⟨0, 0⟩)], []⟩,
    .connect 0 0 1 0, .connect 1 0 0 0, .connect 2 0 0 1]

example : exCyc2.Reaches 0 0 ∧ exCyc2.Reaches 1 1 :=
  ⟨.step ⟨0, 0, 1, 0⟩ (by decide) (.wire ⟨1, 0, 0, 0⟩ (by decide)),
   .step ⟨1, 0, 0, 0⟩ (by decide) (.wire ⟨0, 0, 1, 0⟩ (by decide))⟩

example : view (execute exCyc2 (fun _ => some (fun _ => .ret [(0, .raw 1)])) [] true) =
    (some .cannotResolve, [], [], [2]) := by decide

/-- a wire that bypassed `connect` and violates integrity is stopped by `enforce_static_checks` (the guard of
    `c16_delivered_values_typed` in its first form) and let through without it -/
private def exRaw : Diagram :=
  { modules := [⟨0, [], [(0, ⟨0, 0⟩)], []⟩, ⟨1, [(0, ⟨0, 2⟩)], [], []⟩], wires := [⟨0, 0, 1, 0⟩] }

private def exRawH : Nat → Option Handler := fun n => if n = 0 then some (fun _ => .ret [(0, .raw 1)]) else none

example : view (execute exRaw exRawH [] true) = (some .wireIntegrity, [], [], [0]) ∧
    view (execute exRaw exRawH [] false) = (none, [0, 1], [[], [(0, ⟨0, 0, 1⟩)]], [0]) :=
  ⟨by decide, by decide⟩

/-- an in-place edit after `connect`: module 1's input port 0 now asks for TRUSTED data of type 0 while module
    0's output is only declared VALIDATED (after a second edit).  The wires are unchanged, the edited diagram is
    no longer `Accepted`, and the run stops at the wire (`c16_edited_specs_still_checked`); without enforcement
    the value goes through. -/
private def exEdits : List (Nat × SpecEdit) := [(0, .setOut 0 ⟨0, 1⟩), (1, .setIn 0 ⟨0, 2⟩)]

example : (exD.editAll exEdits).wires = exD.wires ∧ ¬ (exD.editAll exEdits).Accepted := by
  refine ⟨rfl, fun h => ?_⟩
  obtain ⟨s, t, hs, ht, -, h2⟩ := h ⟨0, 0, 1, 0⟩ (by decide)
  have hs' : (exD.editAll exEdits).outPort 0 0 = some ⟨0, 1⟩ := by decide
  have ht' : (exD.editAll exEdits).inPort 1 0 = some ⟨0, 2⟩ := by decide
  rw [hs'] at hs; rw [ht'] at ht
  cases hs; cases ht
  simp at h2

example : view (execute (exD.editAll exEdits) exH exExt true) = (some .wireIntegrity, [], [], [0]) ∧
    view (execute (exD.editAll exEdits) exH exExt false) =
      (none, [0, 1, 2], [[], [(0, ⟨0, 1, 5⟩)], [(1, ⟨0, 2, 8⟩), (0, ⟨1, 1, 6⟩)]], [0, 1]) :=
  ⟨by decide, by decide⟩

/-- a handler that returns a list instead of a dict: the AttributeError case of `c16_only_wiring_errors` -/
example : view (execute exD (fun n => if n = 1 then some (fun _ => .nondict) else exH n) exExt true) =
    (some .attributeError, [], [], [0, 1]) := by decide

/-- the hypotheses of `c16_schedulable_diagram_runs` are met by the example diagram -/
example : ∃ mi, extPhase exD exExt (fun _ => []) = .ok mi ∧ Schedulable exD exH mi := by
  have exHonest : Honest exD exH := by
    intro m hm hd hH ins
    have hmods : exD.modules = [⟨2, [(0, ⟨1, 0⟩), (1, ⟨0, 0⟩)], [], [3]⟩,
        ⟨1, [(0, ⟨0, 1⟩)], [(0, ⟨1, 1⟩)], [1, 3]⟩, ⟨0, [], [(0, ⟨0, 2⟩)], [0]⟩] := by decide
    rw [hmods] at hm
    simp only [List.mem_cons, List.not_mem_nil, or_false] at hm
    rcases hm with rfl | rfl | rfl
    · simp [exH] at hH
    · simp only [exH] at hH
      simp only [show (1 : Nat) ≠ 0 by decide, if_false, if_true, Option.some.injEq] at hH
      subst hH
      exact ⟨_, _, rfl, rfl, rfl⟩
    · simp only [exH, if_true, Option.some.injEq] at hH
      subst hH
      exact ⟨_, _, rfl, rfl, rfl⟩
  refine ⟨_, rfl, (c16_built_diagrams_accepted exOps).1, (c16_built_diagrams_accepted exOps).2, exHonest,
    by decide, ?_⟩
  intro a ha
  have := reaches_idx (order := [0, 1, 2]) (d := exD) (by decide) ha
  omega

/-- re-wiring between two runs (the shape of seeded change s1): source 0 → sink 1, module 2 an alternative source.
    After `wires.remove(0.0 → 1.0)` and `connect(2, 0, 1, 0)` the diagram has as many modules and wires as before;
    the next run schedules the sink after module 2 and delivers module 2's output to it
    (`c16_rewired_run_follows_current_wires`, `c16_api_built_diagrams_end_to_end` with a `removeWire` step). -/
private def exRewOps : List BuildOp :=
  [.addModule ⟨0, [], [(0, ⟨0, 1⟩)], []⟩, .addModule ⟨1, [(0, ⟨0, 0⟩)], [], []⟩, .addModule ⟨2, [], [(0, ⟨0, 1⟩)], []⟩,
   .connect 0 0 1 0]

private def exRewH : Nat → Option Handler := fun n =>
  if n = 1 then some (fun _ => .ret []) else some (fun _ => .ret [(0, .raw (10 + n))])

example : view (execute (Diagram.build exRewOps) exRewH [] true) = (none, [0, 1, 2], [[], [(0, ⟨0, 1, 10⟩)], []], [0, 1, 2]) ∧
    view (execute (Diagram.build (exRewOps ++ [.removeWire ⟨0, 0, 1, 0⟩, .connect 2 0 1 0])) exRewH [] true) =
      (none, [0, 2, 1], [[], [], [(0, ⟨0, 1, 12⟩)]], [0, 2, 1]) ∧
    (Diagram.build (exRewOps ++ [.removeWire ⟨0, 0, 1, 0⟩, .connect 2 0 1 0])).wires = [⟨2, 0, 1, 0⟩] :=
  ⟨by decide, by decide, by decide⟩

example : ((Diagram.build exRewOps).removeWire ⟨0, 0, 1, 0⟩).connect 2 0 ((⟨0, 0, 1, 0⟩ : Wire).dstM)
    ((⟨0, 0, 1, 0⟩ : Wire).dstP) = .ok ⟨(Diagram.build exRewOps).modules, [⟨2, 0, 1, 0⟩]⟩ := rfl

/-- the other three edits of `c16_rewired_diagrams_stay_accepted` on the same diagram: a slot overwritten with an
    allowed wire, the unused module deleted -/
example : (Diagram.build exRewOps).WireOK ⟨2, 0, 1, 0⟩ ∧ ∀ w ∈ (Diagram.build exRewOps).wires, w.srcM ≠ 2 ∧ w.dstM ≠ 2 :=
  ⟨⟨⟨0, 1⟩, ⟨0, 0⟩, by decide, by decide, rfl, by decide⟩, by decide⟩

/-- `Commutes` is satisfiable by handlers that compute with their inputs: module 1 forwards the payload it is shown
    (`c16_payloads_are_opaque` with `f` = "replace every payload by 1000 + it", e.g. the code of a `None`) -/
example : Commutes (· + 1000)
    (fun n => if n = 0 then some (fun _ => .ret [(0, .raw 5)]) else some (fun ins => .ret (ins.map fun pv => (pv.1, .raw pv.2.payload))))
    (fun n => if n = 0 then some (fun _ => .ret [(0, .raw 1005)]) else some (fun ins => .ret (ins.map fun pv => (pv.1, .raw pv.2.payload)))) := by
  intro n
  by_cases h : n = 0
  · subst h
    exact Or.inr ⟨_, _, rfl, rfl, fun ins => rfl⟩
  · refine Or.inr ⟨_, _, if_neg h, if_neg h, fun ins => ?_⟩
    simp [HOut.mapP, mapOuts, mapIns, Val.mapP, TV.mapP, List.map_map, Function.comp_def]

example : exD.requiredCaps = [3, 1, 0] := by decide

end examples

end Operon.Wiring
