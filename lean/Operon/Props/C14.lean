import Operon.Lemmas.C14
import Operon.Lemmas.C15
import Operon.Lemmas.C14Tr
import Operon.Lemmas.C14Held
import Operon.Lemmas.C14Sorted
import Operon.Lemmas.C14Waiters
import Operon.Model.CoordProbe
import Operon.Gen.CoordExecProbe
import Operon.Gen.CoordWatchdogProbe
import Operon.Gen.CoordTranslated
/-!
# C14 — coordinated operations release every resource on every exit path

Property theorems only.  Model: `Operon/Model/Coord.lean`, `CoordDfs.lean`, `CoordExec.lean` (hand-written, tied to
`operon_ai/coordination/{types,controller,system,watchdog,priority}.py` by the differential correspondence of
`harness/vf/props/c14.py`).

`exec s op prio req adv` is `CoordinationSystem.execute_operation`.  The theorems quantify over every system
state `s` (any registered resources, any foreign holders with any hold counts, preemptable or not, any waiting
lists and dependency edges, any watchdog configuration and clock), every request list `req` (repeated and
unregistered ids included), every priority, and every adversary `adv`: the outcome of each of the four checkpoint
evaluations (default condition / false / raising), what each of the six callbacks — the four checkpoint conditions,
the work function, `validate_fn` — does to the system from inside before it answers (nothing, manual kill of any
operation incl. the running one, shutdown, a watchdog run, a maintenance run, after any amount of virtual time),
whether the work function returns or raises, and what `validate_fn` answers (absent / true / false / raising).
Whether the k-th acquisition is blocked is decided by `s`.

An operation that is ended from inside one of its own callbacks (say a manual kill fired by the G0 checkpoint
condition, before anything is acquired) is no longer listed as active, but `execute_operation` goes on with the
context object it holds: it acquires, works, validates and commits or aborts.  The theorems cover that course too —
in particular `c14_no_leak_on_any_exit`: what such an unlisted operation acquires is given back when the call returns.
-/
namespace Operon.Coord

/-- **No leak on any exit.**  If the operation owns nothing when `execute_operation` is called (in particular:
    its id is fresh), then however the call ends — committed, blocked on the k-th resource, unknown resource,
    failed or raising checkpoint, work raising, validation false or raising, killed by a manual kill, a shutdown,
    the watchdog or a maintenance run fired from inside any of its callbacks (any checkpoint condition — also the
    G0 one, before anything is acquired —, the work function, `validate_fn`) — in the returned system no registered
    resource is owned by the operation, it is not listed as active, it is in no waiting list, and no dependency edge
    mentions it. -/
theorem c14_no_leak_on_any_exit (s : Sys) (op : Nat) (prio : Int) (req : List Nat) (adv : Adv)
    (hown : ∀ r, ¬ Owns s op r) :
    let s' := (exec s op prio req adv).sys
    (∀ r, ¬ Owns s' op r) ∧ (∀ c ∈ s'.active, c.id ≠ op) ∧
    (∀ r l, s'.locks r = some l → ∀ e ∈ l.waiting, e.1 ≠ op) ∧
    (∀ w b r, HasEdge s'.edges w b r → w ≠ op ∧ b ≠ op) := by
  have h := clean_exec s op prio req adv hown
  exact ⟨h.owns, h.active, h.waiting, h.edges⟩

/-- **Resources never obtained are untouched.**  A registered resource `r` on which the operation never got a
    result other than BLOCKED (it was not requested, or the loop stopped before it, or the attempt on it was
    blocked) is, after the call, exactly the lock it was before: owner, owner priority, hold count, preemption flag
    and waiting list.  Assumed of the lock before the call: it is not owned by the operation, the operation is not
    in its waiting list, and the waiting list is sorted (an invariant of `_add_to_waiting`).  Assumed of the
    callbacks (`Adv.SelfOnly`: each of the four checkpoint conditions, the work function, `validate_fn`): they kill
    nobody else — each does nothing to the system or ends the operation itself (a kill of another operation, a
    shutdown or a watchdog run legitimately frees that operation's locks). -/
theorem c14_unobtained_untouched (s : Sys) (op : Nat) (prio : Int) (req : List Nat) (adv : Adv) (r : Nat) (l : Lock)
    (hl : s.locks r = some l) (hforeign : l.owner ≠ some op) (hsorted : SortedDesc l.waiting)
    (hnotwaiting : ∀ e ∈ l.waiting, e.1 ≠ op) (hact : adv.SelfOnly op)
    (hnever : ∀ res, Ev.acq r (some res) ∈ (exec s op prio req adv).log → res = .blocked) :
    (exec s op prio req adv).sys.locks r = some l :=
  untouched_exec s op prio req adv r l hl ⟨hforeign, hsorted, hnotwaiting⟩ hact hnever

/-- **What somebody else holds stays theirs through the whole call** — in particular through a call made from inside
    that somebody's own work function (a nested operation) or by a second thread.  A registered resource `r` that is
    owned by another operation `o` and does not allow preemption: every attempt the call makes on it is answered
    BLOCKED, and when the call returns — however it ends — the lock is exactly what it was (owner `o`, owner
    priority, hold count, waiting list), both through `execute_operation` and through `IntegratedCell.execute`.  No
    hypothesis on the outcome of the call or on what it requests; assumed of the lock: the calling operation is not
    in its waiting list and the list is sorted (`_add_to_waiting`'s invariant); of the callbacks: `Adv.SelfOnly` (a
    callback that kills `o` or shuts the system down legitimately frees `o`'s locks).  With a preemptable lock and a
    higher priority the caller does take it: that is what `allow_preemption` means (example below). -/
theorem c14_held_resource_survives_other_calls (s : Sys) (op : Nat) (prio : Int) (req : List Nat) (adv : Adv)
    (post : PostOut) (r o : Nat) (l : Lock)
    (hl : s.locks r = some l) (ho : l.owner = some o) (hne : o ≠ op) (hp : l.preempt = false)
    (hsorted : SortedDesc l.waiting) (hnotwaiting : ∀ e ∈ l.waiting, e.1 ≠ op) (hact : adv.SelfOnly op) :
    (∀ res, Ev.acq r (some res) ∈ (exec s op prio req adv).log → res = .blocked) ∧
    (exec s op prio req adv).sys.locks r = some l ∧ Owns (exec s op prio req adv).sys o r ∧
    (cellExecute s op prio req adv post).sys.locks r = some l := by
  obtain ⟨h1, h2⟩ := held_exec s op prio req adv r o l hl ho hne hp hsorted hnotwaiting hact
  refine ⟨h1, h2, ⟨l, h2, ho⟩, ?_⟩
  have hsys : (cellExecute s op prio req adv post).sys = (exec s op prio req adv).sys := by
    simp only [cellExecute]
    split
    · cases post <;> rfl
    · rfl
  rw [hsys]; exact h2

/-- **Waiting lists are sorted in every reachable state** (`AllSorted`: every registered lock's waiting list is in
    descending priority order — the hypothesis `hsorted` of `c14_unobtained_untouched` and
    `c14_held_resource_survives_other_calls`).  It holds in the empty system and is kept by `register_resource`, by
    every history of controller calls (start / acquire / release / complete / abort / kill) mixed with life-cycle calls
    (`xrun`), by everything a callback can do to the system (kill, shutdown, watchdog run, maintenance run) and by a
    whole `execute_operation` call with any adversary: `_add_to_waiting` sorts whatever list it finds
    (`addWaiting_sorted`: no hypothesis on the list), releases do not touch the list, endings only filter it. -/
theorem c14_waiting_lists_stay_sorted :
    AllSorted ({} : Sys) ∧
    (∀ (s : Sys) (r : Nat) (pre : Bool), AllSorted s → AllSorted (s.register r pre)) ∧
    (∀ (h : HSt) (ops : List XOp), AllSorted h.sys → AllSorted (xrun h ops).sys) ∧
    (∀ (s : Sys) (a : WorkAct), AllSorted s → AllSorted (applyAct s a)) ∧
    (∀ (s : Sys) (op : Nat) (prio : Int) (req : List Nat) (adv : Adv), AllSorted s →
      AllSorted (exec s op prio req adv).sys) :=
  ⟨allSorted_empty, fun _ r pre h => allSorted_register h r pre, fun _ ops h => allSorted_xrun ops h,
   fun _ a h => allSorted_applyAct h a, fun _ op prio req adv h => allSorted_exec h op prio req adv⟩

/-- `c14_unobtained_untouched` at any point of any history that starts from a system with sorted waiting lists (e.g.
    freshly registered resources): the sortedness hypothesis is discharged by `c14_waiting_lists_stay_sorted`. -/
theorem c14_unobtained_untouched_at_every_point_of_a_history (h0 : HSt) (ops : List XOp) (hs0 : AllSorted h0.sys)
    (op : Nat) (prio : Int) (req : List Nat) (adv : Adv) (r : Nat) (l : Lock)
    (hl : (xrun h0 ops).sys.locks r = some l) (hforeign : l.owner ≠ some op)
    (hnotwaiting : ∀ e ∈ l.waiting, e.1 ≠ op) (hact : adv.SelfOnly op)
    (hnever : ∀ res, Ev.acq r (some res) ∈ (exec (xrun h0 ops).sys op prio req adv).log → res = .blocked) :
    (exec (xrun h0 ops).sys op prio req adv).sys.locks r = some l :=
  c14_unobtained_untouched _ op prio req adv r l hl hforeign (allSorted_xrun ops hs0 r l hl) hnotwaiting hact hnever

/-- **A call with an id that is not active, at any point of any history: no side hypotheses left.**  Start from a
    system in which the tracking invariant holds, recorded edges and waiting lists mention listed operations only and
    waiting lists are sorted (e.g. freshly registered resources, nothing active — all four are vacuous there); run any
    history of controller calls (start of ids that are not active / acquire / release / complete / abort / kill)
    mixed with life-cycle calls; then call `execute_operation` with an id `op` that is not active, with callbacks that
    touch nobody else.  For every registered resource `r`: (a) if the call never gets a result other than BLOCKED on
    `r`, then `r` is afterwards exactly the lock it was; (b) if somebody owns `r` and `r` does not allow preemption,
    then every attempt on it IS answered BLOCKED, `r` is exactly the lock it was and its owner still owns it.  The
    hypotheses `hforeign`, `hsorted`, `hnotwaiting` of `c14_unobtained_untouched` / `c14_held_resource_survives_other_calls`
    are consequences of the invariants (`Kinv.unlisted`, `allSorted_xrun`, `invariants_xrun` + `not_waiting_of_unlisted`). -/
theorem c14_fresh_call_at_any_point_of_a_history (h0 : HSt) (ops : List XOp)
    (hk : ∀ o, Kinv h0.sys o) (hlive : EdgesLive h0.sys) (hwl : WaitersListed h0.sys) (hs0 : AllSorted h0.sys)
    (hf : XFreshStarts h0 ops)
    (op : Nat) (prio : Int) (req : List Nat) (adv : Adv) (hfresh : (xrun h0 ops).sys.ctx? op = none)
    (hact : adv.SelfOnly op) (r : Nat) (l : Lock) (hl : (xrun h0 ops).sys.locks r = some l) :
    let s := (xrun h0 ops).sys
    ((∀ res, Ev.acq r (some res) ∈ (exec s op prio req adv).log → res = .blocked) →
      (exec s op prio req adv).sys.locks r = some l) ∧
    (∀ o, l.owner = some o → l.preempt = false →
      (∀ res, Ev.acq r (some res) ∈ (exec s op prio req adv).log → res = .blocked) ∧
      (exec s op prio req adv).sys.locks r = some l ∧ Owns (exec s op prio req adv).sys o r) := by
  obtain ⟨hk', _, hw'⟩ := invariants_xrun ops hk hlive hwl hf
  have hsorted := allSorted_xrun ops hs0 r l hl
  have hnw := not_waiting_of_unlisted hw' hfresh r l hl
  have hown := (hk' op).unlisted (ctx?_none hfresh)
  have hforeign : l.owner ≠ some op := fun h => hown r ⟨l, hl, h⟩
  refine ⟨fun hnever => c14_unobtained_untouched _ op prio req adv r l hl hforeign hsorted hnw hact hnever, ?_⟩
  intro o ho hp
  have hne : o ≠ op := fun e => hforeign (e ▸ ho)
  obtain ⟨h1, h2⟩ := held_exec _ op prio req adv r o l hl ho hne hp hsorted hnw hact
  exact ⟨h1, h2, ⟨l, h2, ho⟩⟩

/-- an unregistered id stays unregistered (nothing is created on the way) -/
theorem c14_unregistered_stays_unregistered (s : Sys) (c : Ctx) (r : Nat) (h : s.locks r = none) :
    (finish s c).1.locks r = none := by
  have := (finish_finStep s c).locks r
  rw [h] at this
  exact this

/-- **The work function runs at most once.** -/
theorem c14_work_at_most_once (s : Sys) (op : Nat) (prio : Int) (req : List Nat) (adv : Adv) :
    ((exec s op prio req adv).log.filter isWork).length ≤ 1 := by
  obtain ⟨b0, acqs, t, hacq, hlog, htail, _⟩ := exec_shape s op prio req adv
  rw [hlog]
  have hsplit : (Ev.cp 0 b0 :: acqs ++ t).filter isWork = t.filter isWork := by
    simp only [List.cons_append, List.filter_cons, List.filter_append]
    rw [filter_acqs (p := isWork) (fun _ _ => rfl) hacq]
    simp [isWork]
  rw [hsplit]
  generalize (exec s op prio req adv).success = b at htail
  cases htail with
  | acqFail => decide
  | cp1 => decide
  | ended => decide
  | workRaise => decide
  | cp2 => decide
  | valFail => decide
  | cp3 _ hv => rcases hv with hv | hv <;> rw [hv] <;> decide
  | commit _ hv => rcases hv with hv | hv <;> rw [hv] <;> decide

/-- **The work function runs only while the operation holds all requested resources.**  If the log contains a work
    event, the system as the work function found it (`atWork`) exists, and in it every requested resource is
    registered and owned by the operation — whatever the six callbacks do.  Between the last acquisition and the work
    function runs one callback, the condition of the G1 → S checkpoint; since the repair of finding
    `C14-work-after-kill-in-g1-checkpoint` `execute_operation` looks at the operation once more after that checkpoint
    and runs the work function only if the operation is still listed — and an operation that is still listed after a
    kill, a shutdown, a watchdog or a maintenance run has kept everything it owned (`applyAct_owns_listed`).  An
    operation ended earlier, from inside its G0 checkpoint, acquires with a context nobody lists and is stopped by the
    same test (`c14_ended_before_work_does_not_work`).
    Reading of "only while": the theorem is about the instant the work function is ENTERED.  What the work function
    does from inside (`adv.act`: killing its own operation, a shutdown, a watchdog run) releases the resources while
    it is still running — that is the work function's own doing, and the exit paths "watchdog kill, manual kill or
    shutdown" of the first sentence of the property. -/
theorem c14_work_only_with_all_resources (s : Sys) (op : Nat) (prio : Int) (req : List Nat) (adv : Adv)
    (ok : Bool) (hran : Ev.work ok ∈ (exec s op prio req adv).log) :
    ∃ w, (exec s op prio req adv).atWork = some w ∧ ∀ r ∈ req, Owns w op r := by
  obtain ⟨b0, acqs, t, hacq, hlog, _, hnone⟩ := exec_shape s op prio req adv
  cases haw : (exec s op prio req adv).atWork with
  | some w => exact ⟨w, rfl, exec_atWork s op prio req adv w haw⟩
  | none =>
    exfalso
    rw [hlog] at hran
    simp only [List.cons_append, List.mem_cons, List.mem_append] at hran
    rcases hran with h | h | h
    · cases h
    · obtain ⟨r, res, he⟩ := hacq _ h; cases he
    · rcases hnone haw with ht | ht | ht <;> rw [ht] at h <;> simp at h

/-- … and the work function finds its own operation listed as active: an operation that has been ended on the way
    (in its G0 or its G1 → S checkpoint callback) does not work at all -/
theorem c14_work_only_while_listed (s : Sys) (op : Nat) (prio : Int) (req : List Nat) (adv : Adv) (w : Sys)
    (h : (exec s op prio req adv).atWork = some w) : ∃ c ∈ w.active, c.id = op := by
  unfold exec at h
  simp only at h
  split at h
  · split at h
    · split at h
      · rename_i hl
        rw [execWork_atWork] at h
        cases h
        exact listed_of_ctx? hl
      · simp [failWith] at h
    · simp [failWith] at h
  · simp [failWith] at h

private def advKillInG1 : Adv :=
  { cp := fun _ => .base, act := .none, workOk := true, val := .yes,
    cpAct := fun i => if i = 1 then .kill 1 else .none }

private def advKillInG0 : Adv :=
  { cp := fun _ => .base, act := .none, workOk := true, val := .yes,
    cpAct := fun i => if i = 0 then .kill 1 else .none }

/-- **Former finding `C14-work-after-kill-in-g1-checkpoint`, repaired**: r1 registered,
    `execute_operation(op1, resources=[r1])`, the condition of the G1 → S checkpoint calls `kill_operation(op1)` and
    answers True.  Before the repair the work function ran holding nothing and the call reported success; now the log
    ends `cp1:1, abort` — no work event, no success, r1 free, nobody active.  The same for a kill from inside the G0
    checkpoint (the operation then acquires r1 with a context nobody lists, is stopped before the work function and
    gives r1 back). -/
theorem c14_ended_before_work_does_not_work :
    let s := ({} : Sys).register 1 false
    (exec s 1 3 [1] advKillInG1).log = [.cp 0 true, .acq 1 (some .acquired), .cp 1 true, .abort] ∧
    (exec s 1 3 [1] advKillInG1).success = false ∧ (exec s 1 3 [1] advKillInG1).atWork.isNone = true ∧
    ((exec s 1 3 [1] advKillInG1).sys.locks 1).map (·.owner) = some none ∧
    (exec s 1 3 [1] advKillInG0).log = [.cp 0 true, .acq 1 (some .acquired), .cp 1 true, .abort] ∧
    (exec s 1 3 [1] advKillInG0).success = false ∧
    ((exec s 1 3 [1] advKillInG0).sys.locks 1).map (·.owner) = some none ∧
    (exec s 1 3 [1] advKillInG0).sys.active = [] := by
  decide

/-- **Validation runs only after work completed.**  Wherever a validation event stands in the log, a work event
    that returned (did not raise) stands before it. -/
theorem c14_validate_only_after_work (s : Sys) (op : Nat) (prio : Int) (req : List Nat) (adv : Adv)
    (pre post : List Ev) (ok : Bool) (h : (exec s op prio req adv).log = pre ++ .validate ok :: post) :
    Ev.work true ∈ pre := by
  obtain ⟨b0, acqs, t, hacq, hlog, htail, _⟩ := exec_shape s op prio req adv
  have hok : okOrder false (exec s op prio req adv).log = true := by
    rw [hlog]
    simp only [List.cons_append, okOrder]
    rw [okOrder_skip hacq]
    generalize (exec s op prio req adv).success = b at htail
    cases htail with
    | acqFail => rfl
    | cp1 => rfl
    | ended => rfl
    | workRaise => rfl
    | cp2 => rfl
    | valFail => rfl
    | cp3 _ hv => rcases hv with hv | hv <;> simp [hv, valEvs, okOrder]
    | commit _ hv => rcases hv with hv | hv <;> simp [hv, valEvs, okOrder]
  rw [h] at hok
  rcases okOrder_split pre false ok post hok with h' | h'
  · cases h'
  · exact h'

/-- **Success is reported only if both succeeded.**  A successful result means: the work function returned,
    `validate_fn` was absent or returned true, the log shows the completed work, shows no failed validation, and
    ends with the commit. -/
theorem c14_success_only_if_both (s : Sys) (op : Nat) (prio : Int) (req : List Nat) (adv : Adv)
    (hs : (exec s op prio req adv).success = true) :
    adv.workOk = true ∧ (adv.val = .absent ∨ adv.val = .yes) ∧
    Ev.work true ∈ (exec s op prio req adv).log ∧ Ev.validate false ∉ (exec s op prio req adv).log ∧
    Ev.complete ∈ (exec s op prio req adv).log ∧ (exec s op prio req adv).phase = .m := by
  obtain ⟨b0, acqs, t, hacq, hlog, htail, _⟩ := exec_shape s op prio req adv
  rw [hs] at htail
  have hnoacq : ∀ e, (∀ r res, e ≠ Ev.acq r res) → e ∉ acqs := by
    intro e hne he
    obtain ⟨r, res, rfl⟩ := hacq e he
    exact hne r res rfl
  have hphase : (exec s op prio req adv).phase = .m := by
    have := exec_success_phase s op prio req adv hs
    exact this
  generalize htt : t = t' at htail
  cases htail with
  | commit hw hv =>
    refine ⟨hw, hv, ?_, ?_, ?_, hphase⟩
    · rw [hlog, htt]; simp
    · rw [hlog, htt]
      simp only [List.cons_append, List.mem_cons, List.mem_append, not_or]
      refine ⟨by simp, hnoacq _ (by simp), ?_⟩
      rcases hv with hv | hv <;> simp [hv, valEvs]
    · rw [hlog, htt]; simp

/-- **Every other exit path.**  `complete_operation`, `abort_operation`, a manual kill, a watchdog kill and a
    shutdown all end an operation through the same code (`finish`): if the operation's context tracks everything
    it owns, then afterwards it owns nothing, is not active, waits nowhere and has no dependency edge. -/
theorem c14_finish_releases_everything (s : Sys) (c : Ctx) (htracked : ∀ r, Owns s c.id r → r ∈ c.acquired) :
    let s' := (finish s c).1
    (∀ r, ¬ Owns s' c.id r) ∧ (∀ x ∈ s'.active, x.id ≠ c.id) ∧
    (∀ r l, s'.locks r = some l → ∀ e ∈ l.waiting, e.1 ≠ c.id) ∧
    (∀ w b r, HasEdge s'.edges w b r → w ≠ c.id ∧ b ≠ c.id) := by
  have h := finish_clean (s := s) (c := c) htracked
  exact ⟨h.owns, h.active, h.waiting, h.edges⟩

/-- ending one operation never takes anything from, and never gives anything to, another operation -/
theorem c14_finish_leaves_others_alone (s : Sys) (c : Ctx) (o r : Nat) (ho : o ≠ c.id) :
    Owns (finish s c).1 o r ↔ Owns s o r :=
  ⟨(finish_finStep s c).owns, (finish_finStep s c).owns_other ho⟩

/-- a re-entrant hold of any depth is released completely (the defect repaired by the first `fix:` commit) -/
theorem c14_reentrant_hold_released (s : Sys) (c : Ctx) (r : Nat) (hr : r ∈ c.acquired) :
    ¬ Owns (releaseFully s c r).1 c.id r :=
  (releaseFully_spec s c r).freed hr

/-! ### … followed by arbitrary further operations

`c14_no_leak_on_any_exit` asks that the operation owns nothing when the call starts.  That this is so for an id that
is not active, in every state a history can reach, is the tracking invariant `Kinv` (every listed context tracks what
its operation owns; an unlisted operation owns nothing).  Controller-level histories keep it
(`c15_tracking_invariant_along_histories`); so do watchdog / maintenance runs, kills and shutdown
(`kinv_applyAct`); and so does `execute_operation` itself, for every operation — which closes the loop: any sequence
of calls, each with whatever adversary, can follow. -/

/-- an id that is not active owns nothing (in a state satisfying the tracking invariant) -/
theorem c14_fresh_id_owns_nothing (s : Sys) (op : Nat) (hk : Kinv s op) (hfresh : s.ctx? op = none) :
    ∀ r, ¬ Owns s op r :=
  hk.unlisted (ctx?_none hfresh)

/-- **The tracking invariant survives the call, for every operation**: if it holds for every operation before
    `execute_operation(op, …)` and `op` is not active, it holds for every operation afterwards — whatever the request
    list and the adversary (callbacks that kill, shut down, run the watchdog; an operation running on unlisted). -/
theorem c14_tracking_invariant_survives_the_call (s : Sys) (op : Nat) (prio : Int) (req : List Nat) (adv : Adv)
    (hk : ∀ o, Kinv s o) (hfresh : s.ctx? op = none) :
    ∀ o, Kinv (exec s op prio req adv).sys o :=
  kinv_exec_all s op prio req adv hk (c14_fresh_id_owns_nothing s op (hk op) hfresh)

/-- a sequence of `execute_operation` calls, each with its own id, priority, request list and adversary -/
def runCalls (s : Sys) : List (Nat × Int × List Nat × Adv) → Sys
  | [] => s
  | c :: cs => runCalls (exec s c.1 c.2.1 c.2.2.1 c.2.2.2).sys cs

/-- every call uses an id that is not active when the call is made -/
def FreshCalls (s : Sys) : List (Nat × Int × List Nat × Adv) → Prop
  | [] => True
  | c :: cs => s.ctx? c.1 = none ∧ FreshCalls (exec s c.1 c.2.1 c.2.2.1 c.2.2.2).sys cs

/-- **No leak along any sequence of calls.**  Start from any state satisfying the tracking invariant (e.g. the empty
    system, or any point of a controller-level history).  Along any sequence of `execute_operation` calls with ids
    that are not active when used, each with any request list and any adversary: at every call the premise of
    `c14_no_leak_on_any_exit` holds, so when that call returns its operation owns nothing, is not active, is in no
    waiting list and in no dependency edge; and the invariant holds again, for every operation, after every call. -/
theorem c14_no_leak_along_call_sequences : ∀ (pre : List (Nat × Int × List Nat × Adv)) (s : Sys)
    (c : Nat × Int × List Nat × Adv) (post : List (Nat × Int × List Nat × Adv)),
    (∀ o, Kinv s o) → FreshCalls s (pre ++ c :: post) →
    (∀ r, ¬ Owns (runCalls s pre) c.1 r) ∧
    (let s' := (exec (runCalls s pre) c.1 c.2.1 c.2.2.1 c.2.2.2).sys
     (∀ r, ¬ Owns s' c.1 r) ∧ (∀ x ∈ s'.active, x.id ≠ c.1) ∧
     (∀ r l, s'.locks r = some l → ∀ e ∈ l.waiting, e.1 ≠ c.1) ∧
     (∀ w b r, HasEdge s'.edges w b r → w ≠ c.1 ∧ b ≠ c.1) ∧ ∀ o, Kinv s' o)
  | [], s, c, post, hk, hf => by
    have hown := c14_fresh_id_owns_nothing s c.1 (hk c.1) hf.1
    have h := c14_no_leak_on_any_exit s c.1 c.2.1 c.2.2.1 c.2.2.2 hown
    exact ⟨hown, h.1, h.2.1, h.2.2.1, h.2.2.2, c14_tracking_invariant_survives_the_call s c.1 c.2.1 c.2.2.1 c.2.2.2 hk hf.1⟩
  | p :: pre, s, c, post, hk, hf =>
    c14_no_leak_along_call_sequences pre (exec s p.1 p.2.1 p.2.2.1 p.2.2.2).sys c post
      (c14_tracking_invariant_survives_the_call s p.1 p.2.1 p.2.2.1 p.2.2.2 hk hf.1) hf.2

/-! ### One layer up: `IntegratedCell.execute` -/

/-- **The cell reports success only if the coordinated operation did** — and hence only if the work function
    returned and validation was absent or returned true — for every system state, request list, adversary (whatever
    exceptions, with or without message, the callbacks raise: the model of the code does not look at the error
    text) and every behaviour of the quality / surveillance post-processing (tag, no tag, raising).  Moreover an
    output is released only with success, a failure is attributed to coordination exactly when the coordinated
    operation failed, and a failing post-processing step yields a failure too. -/
theorem c14_cell_success_only_if_both (s : Sys) (op : Nat) (prio : Int) (req : List Nat) (adv : Adv) (post : PostOut) :
    let c := cellExecute s op prio req adv post
    (c.success = true → (exec s op prio req adv).success = true ∧ adv.workOk = true ∧
        (adv.val = .absent ∨ adv.val = .yes) ∧ post ≠ .raise) ∧
    (c.hasOutput = true → c.success = true) ∧
    (c.blockedByCoordination = true ↔ (exec s op prio req adv).success = false) ∧
    c.tracked = false := by
  simp only [cellExecute]
  cases hs : (exec s op prio req adv).success with
  | false => simp
  | true =>
    have hb := c14_success_only_if_both s op prio req adv hs
    cases post <;> simp [hb.1, hb.2.1]

/-- **No leak through the cell either**: the cell leaves the coordination system exactly as `execute_operation`
    left it, so `c14_no_leak_on_any_exit` applies to every way `IntegratedCell.execute` can end, including a
    post-processing step that raises after the operation committed. -/
theorem c14_cell_no_leak_on_any_exit (s : Sys) (op : Nat) (prio : Int) (req : List Nat) (adv : Adv) (post : PostOut)
    (hown : ∀ r, ¬ Owns s op r) :
    let s' := (cellExecute s op prio req adv post).sys
    s' = (exec s op prio req adv).sys ∧
    (∀ r, ¬ Owns s' op r) ∧ (∀ c ∈ s'.active, c.id ≠ op) ∧
    (∀ r l, s'.locks r = some l → ∀ e ∈ l.waiting, e.1 ≠ op) ∧
    (∀ w b r, HasEdge s'.edges w b r → w ≠ op ∧ b ≠ op) := by
  have hsys : (cellExecute s op prio req adv post).sys = (exec s op prio req adv).sys := by
    simp only [cellExecute]
    split
    · cases post <;> rfl
    · rfl
  simp only
  rw [hsys]
  exact ⟨rfl, c14_no_leak_on_any_exit s op prio req adv hown⟩

/-! ### The model is what the source says: agreement with the translation of the Python methods

`Operon/Gen/CoordTranslated.lean` is regenerated on every run from `operon_ai/coordination/types.py` and
`controller.py` by `harness/vf/extract/py2lean_coord.py` (typed, fail-closed: a method that leaves the supported
subset becomes `untranslatable "…"` and its theorem below stops checking).  Each theorem states that the translated
method IS the hand-written model function the theorems above are about — full equality of the resulting lock /
graph / system / context and of the returned value.  The proofs live here (not in Lemmas) on purpose: when one method
leaves the subset or stops agreeing, only its own theorem fails to check and the report names it.  Hypotheses, where present, are the two facts a Python dict and a
shared object give for free and an association list / a copied record do not: `edges` has one entry per waiter
(`Nodup` keys; an invariant of every history, `Good.keys`), and the context passed in is the object listed in
`active_operations` (`Synced`). -/

theorem c14_translation_agrees_add_to_waiting (l : Lock) (o : Nat) (p : Int) :
    Tr.add_to_waiting l o p = { l with waiting := addWaiting l.waiting o p } := by
  simp [Tr.add_to_waiting, addWaiting, bne_decide]

theorem c14_translation_agrees_try_acquire (l : Lock) (o : Nat) (p : Int) : Tr.try_acquire l o p = l.tryAcquire o p := by
  obtain ⟨ow, pr, h, pre, w⟩ := l
  cases ow with
  | none => simp [Tr.try_acquire, Lock.tryAcquire]
  | some old =>
    by_cases ho : old = o
    · simp [Tr.try_acquire, Lock.tryAcquire, ho]
    · by_cases hp : pre = true ∧ pr < p
      · simp [Tr.try_acquire, Lock.tryAcquire, ho, hp, c14_translation_agrees_add_to_waiting]
      · simp [Tr.try_acquire, Lock.tryAcquire, ho, hp, c14_translation_agrees_add_to_waiting]

theorem c14_translation_agrees_release (l : Lock) (o : Nat) : Tr.release l o = l.release o := by
  obtain ⟨ow, pr, h, pre, w⟩ := l
  by_cases ho : ow = some o
  · by_cases hh : h ≤ 1
    · have : h - 1 = 0 := by omega
      simp [Tr.release, Lock.release, ho, hh, this]
    · have : ¬ h - 1 = 0 := by omega
      simp [Tr.release, Lock.release, ho, hh, this]
  · simp [Tr.release, Lock.release, ho]

theorem c14_translation_agrees_pop_next_waiter (l : Lock) : Tr.pop_next_waiter l = l.popNext := by
  obtain ⟨ow, pr, h, pre, w⟩ := l
  cases w <;> simp [Tr.pop_next_waiter, Lock.popNext, keyError]

theorem c14_translation_agrees_add_dependency (E : Edges) (hn : (E.map (·.1)).Nodup) (w b r : Nat) :
    Tr.add_dependency E w b r = addDep E w b r := by
  unfold Tr.add_dependency addDep
  cases hh : dictHas E w with
  | false =>
    have hno := dictHas_false hh
    have hany : E.any (fun e => e.1 = w) = false := noKey_any hno
    have hs : Split (E ++ [(w, [])]) w E [] [] := ⟨rfl, hno, fun e he => by cases he⟩
    have hset : dictSet E w [] = E ++ [(w, [])] := by unfold dictSet; rw [hh]; rfl
    simp only [hany, hset, hs.get, Bool.not_false, if_true, Bool.false_eq_true, if_false]
    simp [(hs.set [(b, r)]).1]
  | true =>
    obtain ⟨P, v, R, hs⟩ := split_of_has hn hh
    have hany : E.any (fun e => e.1 = w) = true := hh
    simp only [hany, Bool.not_true, Bool.false_eq_true, if_false, if_true, hs.get]
    by_cases hc : v.contains (b, r) = true
    · simp only [hc, Bool.not_true, Bool.false_eq_true, if_false]
      rw [hs.eq]
      have hm : (b, r) ∈ v := by simpa using hc
      simp [noKey_map hs.left, noKey_map hs.right, hm]
    · simp only [hc, Bool.not_false, if_true]
      rw [(hs.set _).1, hs.eq]
      have hm : (b, r) ∉ v := by simpa using hc
      simp [noKey_map hs.left, noKey_map hs.right, hm]

theorem c14_translation_agrees_remove_dependency (E : Edges) (hn : (E.map (·.1)).Nodup) (w b : Nat) :
    Tr.remove_dependency E w b = removeDep E w b := by
  have hstep : Tr.remove_dependency E w b = if dictHas E w then stepRm b E w else E := by
    unfold Tr.remove_dependency stepRm; rfl
  rw [hstep]
  unfold removeDep
  cases hh : dictHas E w with
  | false =>
    have hno := dictHas_false hh
    simp only [Bool.false_eq_true, if_false]
    rw [noKey_map hno (fun e => (e.1, e.2.filter (fun d => d.1 ≠ b)))]
    symm
    apply List.filter_eq_self.mpr
    intro e he
    simp [hno e he]
  | true =>
    obtain ⟨P, v, R, hs⟩ := split_of_has hn hh
    simp only [if_true]
    rw [stepRm_split hs, hs.eq]
    simp only [List.map_append, List.map_cons, if_true, List.filter_append, List.filter_cons]
    rw [noKey_map hs.left (fun e => (e.1, e.2.filter (fun d => d.1 ≠ b))),
      noKey_map hs.right (fun e => (e.1, e.2.filter (fun d => d.1 ≠ b)))]
    have hP : P.filter (fun e => !(decide (e.1 = w) && e.2.isEmpty)) = P :=
      List.filter_eq_self.mpr (fun e he => by simp [hs.left e he])
    have hR : R.filter (fun e => !(decide (e.1 = w) && e.2.isEmpty)) = R :=
      List.filter_eq_self.mpr (fun e he => by simp [hs.right e he])
    rw [hP, hR]
    have hf : (fun d : Nat × Nat => decide (d.1 ≠ b)) = (fun e => e.1 != b) := by
      funext d; simp [bne_decide]
    rw [hf]
    by_cases he : (v.filter (fun e => e.1 != b)).isEmpty = true
    · rw [if_pos he]; simp [he]
    · rw [if_neg he]; simp [he]

theorem c14_translation_agrees_remove_all_for_agent (E : Edges) (hn : (E.map (·.1)).Nodup) (a : Nat) :
    Tr.remove_all_for_agent E a = removeAllFor E a := by
  have hsub : ((E.filter (fun e => e.1 ≠ a)).map (·.1)).Nodup :=
    List.Nodup.sublist (List.Sublist.map _ List.filter_sublist) hn
  have hfold := foldl_stepRm a (E.filter (fun e => e.1 ≠ a)) [] (by simpa using hsub)
  have hstep : ∀ (E0 : Edges), (dictKeys E0).foldl (fun E v_waiter =>
      let E : Edges := dictSet E v_waiter (((dictGet E v_waiter)).filter (fun e => (e.1 != a)))
      if (!(!((dictGet E v_waiter)).isEmpty)) then
        let E : Edges := dictDel E v_waiter
        E
      else
        E) E0 = (dictKeys E0).foldl (stepRm a) E0 := fun _ => rfl
  unfold Tr.remove_all_for_agent removeAllFor
  simp only [hstep]
  cases hh : dictHas E a with
  | true =>
    simp only [if_true]
    have : dictDel E a = E.filter (fun e => e.1 ≠ a) := rfl
    rw [this]
    simp only [List.nil_append] at hfold
    rw [hfold]
    simp [bne_decide]
  | false =>
    simp only [Bool.false_eq_true, if_false]
    have hno := noKey_filter (dictHas_false hh)
    rw [hno] at hfold
    simp only [List.nil_append] at hfold
    rw [hfold, hno]
    simp [bne_decide]

theorem c14_translation_agrees_acquire_resource (s : Sys) (c : Ctx) (r : Nat) (hn : (s.edges.map (·.1)).Nodup) :
    Tr.acquire_resource s c r = acquire s c r := by
  unfold Tr.acquire_resource
  cases hl : s.locks r with
  | none => rw [acquire_unknown hl]
  | some l =>
    simp only [c14_translation_agrees_try_acquire]
    by_cases hres : (l.tryAcquire c.id c.prio).2 = .blocked
    · rw [acquire_blocked hl hres]
      have h1 := (tryAcquire_blocked hres).1
      simp only [hres, h1]
      have hnn : (((s.setLock r { l with waiting := addWaiting l.waiting c.id c.prio }).edges).map (·.1)).Nodup := hn
      simp [Sys.setLock, c14_translation_agrees_add_dependency _ hn]
    · rw [acquire_ok hl hres]
      have hed : ∀ (c' : Ctx), (((s.setLock r (l.tryAcquire c.id c.prio).1).setCtx c').edges) = s.edges := fun _ => rfl
      generalize hq : l.tryAcquire c.id c.prio = q at hres
      obtain ⟨l', res⟩ := q
      cases res with
      | blocked => exact absurd rfl hres
      | acquired => simp [Sys.setLock, Sys.setCtx, c14_translation_agrees_remove_all_for_agent _ hn]
      | reentrant => simp [Sys.setLock, Sys.setCtx, c14_translation_agrees_remove_all_for_agent _ hn]
      | preempted => simp [Sys.setLock, Sys.setCtx, c14_translation_agrees_remove_all_for_agent _ hn]

theorem c14_translation_agrees_release_resource (s : Sys) (c : Ctx) (r : Nat) (hn : (s.edges.map (·.1)).Nodup) (hsync : Synced s c) :
    Tr.release_resource s c r = release s c r := by
  unfold Tr.release_resource
  by_cases hown : r ∈ c.acquired ∧ Owns s c.id r
  · obtain ⟨hr, l, hl, ho⟩ := hown
    have hc : c.acquired.contains r = true := by simpa using hr
    simp only [hc, Bool.not_true, Bool.false_eq_true, if_false, hl, c14_translation_agrees_release]
    by_cases hh : l.hold ≤ 1
    · rw [release_last hr hl ho hh]
      simp [Lock.release, ho, hh, Lock.freed, Sys.setLock, Sys.setCtx, c14_translation_agrees_remove_all_for_agent _ hn]
    · rw [release_more hr hl ho hh]
      have hs2 : Synced ({ s.setLock r { l with hold := l.hold - 1 } with edges := removeAllFor s.edges c.id }) c := hsync
      rw [setCtx_same hs2]
      simp [Lock.release, ho, hh, Sys.setLock, c14_translation_agrees_remove_all_for_agent _ hn]
  · rw [release_not_owned hown]
    by_cases hc : c.acquired.contains r = true
    · simp only [hc, Bool.not_true, Bool.false_eq_true, if_false]
      cases hl : s.locks r with
      | none => rfl
      | some l =>
        have hno : l.owner ≠ some c.id := fun ho => hown ⟨by simpa using hc, l, hl, ho⟩
        simp only [c14_translation_agrees_release]
        have hrel : l.release c.id = (l, false) := by simp [Lock.release, hno]
        simp only [hrel, Bool.false_eq_true, if_false]
        rw [setLock_same hl]
    · have hf : c.acquired.contains r = false := Bool.eq_false_iff.mpr hc
      simp only [hf, Bool.not_false, if_true]

/-- the `while` loop of `release_all_resources`, translated, is the model's `releaseLoop`, and what the loop needs
    (distinct keys, the shared context object) holds again afterwards -/
theorem c14_translation_loop_while_is_releaseLoop (r : Nat) : ∀ (f : Nat) (s : Sys) (c : Ctx), (s.edges.map (·.1)).Nodup → Synced s c →
    whileFuel f (fun sc : Sys × Ctx =>
        let q := Tr.release_resource sc.1 sc.2 r
        ((q.1, q.2.1), q.2.2 && (q.2.1.acquired).contains r)) (s, c) = releaseLoop f s c r ∧
    ((releaseLoop f s c r).1.edges.map (·.1)).Nodup ∧ Synced (releaseLoop f s c r).1 (releaseLoop f s c r).2
  | 0, s, c, hn, hs => ⟨rfl, hn, hs⟩
  | f + 1, s, c, hn, hs => by
    have hn1 : ((release s c r).1.edges.map (·.1)).Nodup := (release_relStep s c r).1.keys hn
    have hs1 := release_synced s c r hs
    unfold whileFuel releaseLoop
    simp only [c14_translation_agrees_release_resource s c r hn hs]
    generalize hq : release s c r = q at hn1 hs1
    obtain ⟨s', c', ok⟩ := q
    cases ok with
    | false => exact ⟨by simp, hn1, hs1⟩
    | true =>
      simp only [Bool.true_and]
      by_cases hc : c'.acquired.contains r = true
      · simp only [hc, if_true]
        exact c14_translation_loop_while_is_releaseLoop r f s' c' hn1 hs1
      · have hf : c'.acquired.contains r = false := Bool.eq_false_iff.mpr hc
        simp only [hf, Bool.false_eq_true, if_false]
        exact ⟨trivial, hn1, hs1⟩

theorem c14_translation_loop_for_is_releaseKeys : ∀ (ks : List Nat) (s : Sys) (c : Ctx), (s.edges.map (·.1)).Nodup → Synced s c →
    ks.foldl (fun (sc : Sys × Ctx) v_resource_id =>
        let s : Sys := sc.1
        let c : Ctx := sc.2
        let sc : Sys × Ctx := whileFuel (holdOf s v_resource_id + 1) (fun sc =>
            let r := Tr.release_resource sc.1 sc.2 v_resource_id
            ((r.1, r.2.1), r.2.2 && (r.2.1.acquired).contains v_resource_id)) (s, c)
        let s : Sys := sc.1
        let c : Ctx := sc.2
        (s, c)) (s, c) = releaseKeys ks s c
  | [], _, _, _, _ => rfl
  | k :: ks, s, c, hn, hs => by
    obtain ⟨h1, h2, h3⟩ := c14_translation_loop_while_is_releaseLoop k (holdOf s k + 1) s c hn hs
    simp only [List.foldl_cons, releaseKeys, releaseFully]
    rw [h1]
    exact c14_translation_loop_for_is_releaseKeys ks _ _ h2 h3

theorem c14_translation_agrees_release_all_resources (s : Sys) (c : Ctx) (hn : (s.edges.map (·.1)).Nodup) (hsync : Synced s c) :
    Tr.release_all_resources s c = releaseAll s c := by
  unfold Tr.release_all_resources releaseAll
  simp only
  rw [c14_translation_loop_for_is_releaseKeys c.acquired s c hn hsync]

theorem c14_translation_agrees_forget_operation (s : Sys) (o : Nat) (hn : (s.edges.map (·.1)).Nodup) :
    Tr.forget_operation s o = forgetWaiter s o := by
  unfold Tr.forget_operation forgetWaiter
  simp [Sys.mapLocks, c14_translation_agrees_remove_all_for_agent _ hn, bne_decide]



/-- **The skeleton of `exec` is the code's, on the complete domain of callback outcomes (table regenerated from the
    source on every run).**  `Gen.execProbe` (harness/vf/extract/exec_probe.py) is the real
    `CoordinationSystem.execute_operation` EVALUATED on a fresh system with one free resource, requesting it, for every
    combination of the four checkpoint evaluations (default condition / returns False / raises), the work function
    returning or raising, and the validator absent / True / False / raising — 648 rows, all of `probeDomain`.  On
    every row the hand-written model `exec` reports the same success flag and the same phase, its callbacks run in
    exactly the observed order (which checkpoint, work, validation event follows which, and where the call stops), and
    afterwards nothing is active and the resource is free — in the model and in the code.  So the clauses "work at most
    once", "validation only after work completed", "success only if both succeeded" are facts about the code's own
    control flow on this domain, not only about the model (audit F3).  A proof by `decide` over the complete finite
    table; callbacks that act on the system, other request lists and other initial states are covered by the ∀-theorems
    above (model) and by the differential correspondence (code). -/
theorem c14_exec_table_agrees_with_source :
    Gen.execProbeOk = true ∧
    Gen.execProbe.map (fun r => (r.1, r.2.1, r.2.2.1)) = probeDomain ∧
    ∀ r ∈ Gen.execProbe, probeRow r.1 r.2.1 r.2.2.1 = (r.2.2.2.1, r.2.2.2.2.1, r.2.2.2.2.2.1, r.2.2.2.2.2.2) ∧
      r.2.2.2.2.2.2 = true := by
  decide +kernel

/-- **What happens to an operation that is ended from inside one of its own callbacks is the code's behaviour, on the
    complete domain (table regenerated from the source on every run).**  `Gen.execKillProbe` is the real
    `execute_operation` EVALUATED with `kill_operation(own id)` or `shutdown()` fired from inside each of the six
    callbacks — the four checkpoint conditions, `work_fn`, `validate_fn` —, work returning or raising, the validator
    absent / True / False / raising (92 rows, all of `killProbeDomain`).  On every row the model's `exec` reports the same
    success flag and phase, runs its callbacks in exactly the observed order, and agrees on whether the work function ran
    and whether it held the resource; and on every row of the REAL code nothing is active or owned afterwards and the
    work function never ran without the resource.  In particular the test this property's repaired finding added — an
    operation ended in its G0 or G1 → S checkpoint does not work, one ended later goes on — is read off the source, not
    only put into the model.  A proof by `decide` over the complete finite table. -/
theorem c14_exec_kill_table_agrees_with_source :
    Gen.execKillProbeOk = true ∧
    Gen.execKillProbe.map (fun r => (r.1, r.2.1, r.2.2.1, r.2.2.2.1)) = killProbeDomain ∧
    ∀ r ∈ Gen.execKillProbe, killProbeRow r.1 r.2.1 r.2.2.1 r.2.2.2.1 = r.2.2.2.2 ∧
      r.2.2.2.2.2.2.2.2 = true ∧ r.2.2.2.2.2.2.2.1 ≠ some false := by
  decide +kernel

set_option synthInstance.maxSize 1024 in
/-- **The watchdog's per-operation verdict is the code's, on a complete grid (table regenerated from the source on
    every run).**  `Gen.watchdogProbe` (harness/vf/extract/watchdog_probe.py) is the real `Watchdog.check` EVALUATED on
    a controller with one active operation for every phase x `watchdog_exempt` x `resources_acquired` x
    (`max_operation_time`, `starvation_timeout`, `progress_timeout`) each in {None, 0, 5 µs} x (time since creation,
    time in the current phase) each in {5, 6} µs — 2160 rows, all of `wdDomain`: at each limit and one past it (the
    `>` of every comparison), with the falsy zero timedelta of `if self.limit:`, in and out of the phase each rule
    looks at.  On every row the model's `timeoutEvent` gives the same verdict (nothing / timeout / starvation /
    no_progress) — which operations the watchdog kill path aborts is the code's rule, not only the model's.  A proof
    by `decide` over the complete finite table. -/
theorem c14_watchdog_table_agrees_with_source :
    Gen.watchdogProbeOk = true ∧
    Gen.watchdogProbe.map (fun r => (r.1, r.2.1, r.2.2.1, r.2.2.2.1, r.2.2.2.2.1, r.2.2.2.2.2.1, r.2.2.2.2.2.2.1, r.2.2.2.2.2.2.2.1))
      = wdDomain ∧
    ∀ r ∈ Gen.watchdogProbe,
      wdRow r.1 r.2.1 r.2.2.1 r.2.2.2.1 r.2.2.2.2.1 r.2.2.2.2.2.1 r.2.2.2.2.2.2.1 r.2.2.2.2.2.2.2.1 = r.2.2.2.2.2.2.2.2 := by
  decide +kernel

/-! ### Non-vacuity: concrete systems meeting the hypotheses -/

private def s0 : Sys := (({} : Sys).register 1 false).register 2 true
private def advOk : Adv := { cp := fun _ => .base, act := .none, workOk := true, val := .yes }

/-- a system in which op 7 owns r2 (priority 1, preemptable) and op 1 owns nothing -/
private def s1 : Sys := (acquire (s0.start 7 1).1 (s0.start 7 1).2 2).1

/-- the repaired defect: a repeated entry is acquired re-entrantly and still fully released on commit -/
example : (exec s0 1 3 [1, 1] advOk).success = true ∧
    ((exec s0 1 3 [1, 1] advOk).sys.locks 1).map (·.owner) = some none ∧
    ((exec s0 1 3 [1, 1] advOk).atWork.bind (·.locks 1)).map (·.hold) = some 2 := by decide

/-- blocked on the second resource (held by op 7 with higher priority): the first is released, the second is
    exactly as before (hypotheses of `c14_unobtained_untouched` are satisfiable, with a BLOCKED attempt in the log) -/
example : (exec s1 1 0 [1, 2] advOk).success = false ∧
    (exec s1 1 0 [1, 2] advOk).log = [.cp 0 true, .acq 1 (some .acquired), .acq 2 (some .blocked), .abort] ∧
    (exec s1 1 0 [1, 2] advOk).sys.locks 2 = s1.locks 2 ∧
    ((exec s1 1 0 [1, 2] advOk).sys.locks 1).map (·.owner) = some none := by decide

/-- a system in which op 7 owns r1 (not preemptable): the hypotheses of `c14_held_resource_survives_other_calls` hold
    for a call of op 1 — whatever its priority — that asks for r1: it is blocked and r1 is untouched -/
private def s2 : Sys := (acquire (s0.start 7 1).1 (s0.start 7 1).2 1).1

example : (s2.locks 1).map (fun l => (l.owner, l.preempt, l.waiting)) = some (some 7, false, []) ∧
    (exec s2 1 9 [2, 1] advOk).log = [.cp 0 true, .acq 2 (some .acquired), .acq 1 (some .blocked), .abort] ∧
    (exec s2 1 9 [2, 1] advOk).sys.locks 1 = s2.locks 1 ∧
    (cellExecute s2 1 9 [2, 1] advOk .ok).sys.locks 1 = s2.locks 1 := by decide

/-- `s0`, `s1`, `s2` have sorted waiting lists (hypothesis of `c14_unobtained_untouched_at_every_point_of_a_history`) -/
example : AllSorted s0 ∧ AllSorted s1 ∧ AllSorted s2 := by
  have h0 : AllSorted s0 := allSorted_register (allSorted_register allSorted_empty 1 false) 2 true
  exact ⟨h0, allSorted_acquire (allSorted_start h0 7 1) _ 2, allSorted_acquire (allSorted_start h0 7 1) _ 1⟩

/-- preemption: with priority 3 the operation takes r2 from op 7, commits, and r2 is free afterwards -/
example : (exec s1 1 3 [2] advOk).success = true ∧
    ((exec s1 1 3 [2] advOk).sys.locks 2).map (·.owner) = some none := by decide

/-- killed from inside work, work then raising: still nothing owned, not active -/
example : (exec s0 1 3 [1, 2, 1] { advOk with act := .kill 1, workOk := false }).success = false ∧
    ((exec s0 1 3 [1, 2, 1] { advOk with act := .kill 1, workOk := false }).sys.locks 1).map (·.owner) = some none ∧
    (exec s0 1 3 [1, 2, 1] { advOk with act := .kill 1, workOk := false }).sys.active = [] := by decide

/-- ended from inside its own G0 checkpoint condition, before anything is acquired (the operation is then no
    longer listed): it still acquires r1 and r2 with a context nobody lists, is stopped before the work function (no
    work, failure) and both are free afterwards; ended from inside the S → G2 checkpoint condition, after the work: it
    goes on unlisted, is validated, commits — and both are free afterwards; the same with a validator that says no,
    and with a shutdown fired from inside `validate_fn` -/
example :
    (exec s0 1 3 [1, 2] { advOk with cpAct := fun i => if i = 0 then .kill 1 else .none }).success = false ∧
    (exec s0 1 3 [1, 2] { advOk with cpAct := fun i => if i = 0 then .kill 1 else .none }).atWork.isNone = true ∧
    ((exec s0 1 3 [1, 2] { advOk with cpAct := fun i => if i = 0 then .kill 1 else .none }).sys.locks 1).map (·.owner) = some none ∧
    ((exec s0 1 3 [1, 2] { advOk with cpAct := fun i => if i = 0 then .kill 1 else .none }).sys.locks 2).map (·.owner) = some none ∧
    (exec s0 1 3 [1, 2] { advOk with cpAct := fun i => if i = 2 then .kill 1 else .none }).success = true ∧
    ((exec s0 1 3 [1, 2] { advOk with cpAct := fun i => if i = 2 then .kill 1 else .none }).atWork.map
      (fun w => (w.ctx? 1).isSome && (w.locks 1).map (·.owner) == some (some 1) && (w.locks 2).map (·.owner) == some (some 1)))
      = some true ∧
    ((exec s0 1 3 [1, 2] { advOk with cpAct := fun i => if i = 2 then .kill 1 else .none }).sys.locks 2).map (·.owner) = some none ∧
    (exec s0 1 3 [1, 2] { advOk with val := .no, cpAct := fun i => if i = 2 then .kill 1 else .none }).success = false ∧
    ((exec s0 1 3 [1, 2] { advOk with val := .no, cpAct := fun i => if i = 2 then .kill 1 else .none }).sys.locks 2).map (·.owner)
      = some none ∧
    ((exec s0 1 3 [1, 2] { advOk with valAct := .shutdown }).sys.locks 1).map (·.owner) = some none := by decide

/-- the hypothesis of the theorems about untouched resources is satisfiable: callbacks that only end op 1 itself are
    `SelfOnly` (and a G1 checkpoint condition that kills another operation `spares` op 1 — the hypothesis the
    work-holds-everything theorem needed before the repair of the finding, kept for the record) -/
example : (WorkAct.kill 7).spares 1 ∧ WorkAct.none.spares 1 ∧
    ({ advOk with cpAct := fun i => if i = 0 then .kill 1 else .none, valAct := .kill 1 } : Adv).SelfOnly 1 :=
  ⟨Or.inr ⟨7, rfl, by decide⟩, Or.inl rfl,
    ⟨fun i => by by_cases h : i = 0 <;> simp [WorkAct.selfOnly, h], Or.inl rfl, Or.inr rfl⟩⟩

/-- the hypotheses of `c14_no_leak_along_call_sequences` are satisfiable: the empty system with two resources
    satisfies the tracking invariant, and three calls in a row — the first ended from inside its G0 checkpoint, the
    second re-using the id of the first, the third shutting the system down from `validate_fn` — use ids that are not
    active when used -/
example : (∀ o, Kinv s0 o) ∧
    FreshCalls s0 [(1, 3, [1, 2], { advOk with cpAct := fun i => if i = 0 then .kill 1 else .none }),
                   (1, 0, [2, 2], advOk), (4, 1, [1], { advOk with valAct := .shutdown, val := .no })] := by
  have h0 : ∀ o r, ¬ Owns s0 o r := by
    rintro o r ⟨l, hl, ho⟩
    simp only [s0, Sys.register] at hl
    split at hl
    · cases hl; cases ho
    · split at hl
      · cases hl; cases ho
      · cases hl
  refine ⟨fun o => ⟨fun _ _ _ x hx => absurd hx (h0 o x), fun _ x => h0 o x⟩, ?_⟩
  simp only [FreshCalls]
  decide

/-- the hypotheses of `c14_fresh_call_at_any_point_of_a_history` are satisfiable: `s0` (two registered resources,
    nothing active) meets all four invariants; after `start 7 / acquire 7 r1` the id 1 is not active and r1 is owned by
    op 7 and does not allow preemption -/
example : (∀ o, Kinv s0 o) ∧ EdgesLive s0 ∧ WaitersListed s0 ∧ AllSorted s0 ∧
    XFreshStarts ⟨s0, []⟩ [.ctl (.start 7 1), .ctl (.acq 7 1)] ∧
    (xrun ⟨s0, []⟩ [.ctl (.start 7 1), .ctl (.acq 7 1)]).sys.ctx? 1 = none ∧
    ((xrun ⟨s0, []⟩ [.ctl (.start 7 1), .ctl (.acq 7 1)]).sys.locks 1).map (fun l => (l.owner, l.preempt)) =
      some (some 7, false) := by
  have h0 : ∀ o r, ¬ Owns s0 o r := by
    rintro o r ⟨l, hl, ho⟩
    simp only [s0, Sys.register] at hl
    split at hl
    · cases hl; cases ho
    · split at hl
      · cases hl; cases ho
      · cases hl
  have hw : WaitersListed s0 := by
    intro r l hl e he
    simp only [s0, Sys.register] at hl
    split at hl
    · cases hl; cases he
    · split at hl
      · cases hl; cases he
      · cases hl
  refine ⟨fun o => ⟨fun _ _ _ x hx => absurd hx (h0 o x), fun _ x => h0 o x⟩, ?_, hw,
    allSorted_register (allSorted_register allSorted_empty 1 false) 2 true, ?_, by decide, by decide⟩
  · rintro w b r ⟨e, he, _⟩; cases he
  · simp only [XFreshStarts]; decide

/-- the cell layer: success with and without a tag, failure attributed to coordination when validation raises,
    failure without a blocker when the post-processing raises after a commit -/
example : (cellExecute s0 1 3 [1] advOk .ok).success = true ∧ (cellExecute s0 1 3 [1] advOk .noTag).success = true ∧
    (cellExecute s0 1 3 [1] { advOk with val := .raise } .ok).success = false ∧
    (cellExecute s0 1 3 [1] { advOk with val := .raise } .ok).blockedByCoordination = true ∧
    (cellExecute s0 1 3 [1] advOk .raise).success = false ∧
    (cellExecute s0 1 3 [1] advOk .raise).blockedByCoordination = false ∧
    (cellExecute s0 1 3 [1] advOk .raise).coord.success = true := by decide

/-- the hypotheses of the agreement theorems are satisfiable on a non-trivial state: op 7 holds r2 and is the listed
    context, op 1 is blocked on it (one edge, distinct keys) -/
example : ∃ s : Sys, ∃ c : Ctx, (s.edges.map (·.1)).Nodup ∧ Synced s c ∧ s.edges = [(1, [(7, 2)])] ∧ c.id = 7 ∧
    c.acquired = [2] := by
  refine ⟨(acquire (s1.start 1 0).1 (s1.start 1 0).2 2).1, (s1.ctx? 7).getD { id := 0, prio := 0 }, by decide, ?_,
    by decide, by decide, by decide⟩
  intro x hx hid
  have : (acquire (s1.start 1 0).1 (s1.start 1 0).2 2).1.active =
      [(s1.ctx? 7).getD { id := 0, prio := 0 }, (s1.start 1 0).2] := by decide
  rw [this] at hx
  rcases List.mem_cons.mp hx with rfl | hx'
  · rfl
  · simp at hx'; subst hx'; revert hid; decide

end Operon.Coord
