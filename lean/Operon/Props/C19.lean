import Operon.Lemmas.C19
import Operon.Lemmas.C19Hist
import Operon.Model.CascadeTr
import Operon.Model.CascadeMapk
import Operon.Gen.CascadeTable
import Operon.Gen.CascadeTranslated
/-!
# C19 — cascade gates fail closed and halted pipelines run nothing further

Property theorems only.  Model: `Operon/Model/Cascade.lean` (hand-written, tied to
`operon_ai/topology/cascade.py` by the differential correspondence of `harness/vf/props/c19.py`).
All statements quantify over every configuration, every list of stages, every input signal and every
behaviour of the checkpoint / processor / error-handler callbacks (arbitrary functions that return or raise).
-/
namespace Operon.Cascade

variable {σ : Type}

/-- A stage that has a checkpoint processes a signal only if that checkpoint returned `true` for exactly
    that signal: in the callback log, every processor event of a gated stage is immediately preceded by the
    `true` checkpoint event of the same stage on the same signal.  Holds for both `halt_on_failure` settings
    and for checkpoints that return false or raise. -/
theorem c19_processor_only_after_true_checkpoint (cfg : Cfg) (stages : List (Stage σ)) (x : σ) :
    GatedFrom stages none (result cfg stages x).log := by
  unfold result run
  exact runFrom_gated cfg stages stages 0 ⟨x, clamp cfg 1, none⟩ (by intro k s h; simpa using h) none

/-- Index form of the same statement: if `log[k]` is a processor event of a gated stage then `k ≥ 1` and
    `log[k-1]` is its `true` checkpoint on the same signal. -/
theorem c19_processor_only_after_true_checkpoint_idx (cfg : Cfg) (stages : List (Stage σ)) (x : σ)
    (k i : Nat) (sig : σ) (hk : (result cfg stages x).log[k]? = some (.proc i sig)) (hcp : hasCp stages i) :
    1 ≤ k ∧ (result cfg stages x).log[k - 1]? = some (.cp i sig (.ok true)) := by
  have key : ∀ (l : List (Ev σ)) (p : Option (Ev σ)) (k : Nat), GatedFrom stages p l →
      l[k]? = some (.proc i sig) →
      (k = 0 ∧ p = some (.cp i sig (.ok true))) ∨ (1 ≤ k ∧ l[k - 1]? = some (.cp i sig (.ok true))) := by
    intro l
    induction l with
    | nil => intro p k _ h; simp at h
    | cons e l ih =>
      intro p k hg h
      cases k with
      | zero =>
        simp at h; subst h
        exact Or.inl ⟨rfl, hg.1 i sig rfl hcp⟩
      | succ k =>
        simp at h
        rcases ih (some e) k hg.2 h with ⟨hk0, hp⟩ | ⟨hk1, hp⟩
        · subst hk0; right; simp at hp; simp [hp]
        · right; refine ⟨by omega, ?_⟩
          have : k + 1 - 1 = (k - 1) + 1 := by omega
          rw [this]; simpa using hp
  rcases key _ none k (c19_processor_only_after_true_checkpoint cfg stages x) hk with ⟨_, h⟩ | h
  · cases h
  · exact h

/-- The same clause in its negative form: **a checkpoint that returned false or raised never lets its stage run**, in either
    failure-mode setting — if the log holds a checkpoint event of stage `i` whose answer is not `true`, it holds no processor
    event of stage `i` at all (each stage consults its gate at most once per run, so there is no second chance). -/
theorem c19_closed_gate_never_runs_the_stage (cfg : Cfg) (stages : List (Stage σ)) (x : σ) (i : Nat) (sig : σ)
    (r : Out Bool) (hcp : (Ev.cp i sig r) ∈ (result cfg stages x).log) (hr : r ≠ .ok true) :
    ∀ sig', (Ev.proc i sig') ∉ (result cfg stages x).log :=
  runFrom_closed cfg stages 0 ⟨x, clamp cfg 1, none⟩ i sig r hcp hr

/-- With halt-on-failure, after a stage that ended BLOCKED or FAILED (a rejected or raising gate, or a
    required stage whose processor failed without recovery) no callback of any later stage runs and no later
    stage produces a result. -/
theorem c19_halt_runs_nothing_further (cfg : Cfg) (hh : cfg.halt = true) (stages : List (Stage σ)) (x : σ)
    (r : StageRes σ) (hr : r ∈ (result cfg stages x).results)
    (hst : r.status = .blocked ∨ r.status = .failed) :
    (∀ e ∈ (result cfg stages x).log, e.idx ≤ r.idx) ∧
    (∀ r' ∈ (result cfg stages x).results, r'.idx ≤ r.idx) :=
  runFrom_halt cfg hh stages 0 ⟨x, clamp cfg 1, none⟩ r hr hst

/-- A run is reported successful exactly when every stage, in order, produced a COMPLETED result. -/
theorem c19_success_iff_all_completed_in_order (cfg : Cfg) (stages : List (Stage σ)) (x : σ) :
    (result cfg stages x).success = true ↔
      ((result cfg stages x).results.map (·.idx) = List.range stages.length ∧
       ∀ r ∈ (result cfg stages x).results, r.status = .completed) := by
  have hshape := runFrom_shape cfg stages 0 ⟨x, clamp cfg 1, none⟩
  have hall := runFrom_allCompleted cfg stages 0 ⟨x, clamp cfg 1, none⟩
  simp only [result, run, Bool.and_eq_true, beq_iff_eq, Option.isNone_iff_eq_none]
  constructor
  · rintro ⟨hc, -⟩
    unfold completedCount at hc
    have hle := List.length_filter_le (fun r : StageRes σ => decide (r.status = .completed))
      (runFrom cfg 0 stages ⟨x, clamp cfg 1, none⟩).results
    have hlen : (runFrom cfg 0 stages ⟨x, clamp cfg 1, none⟩).results.length = stages.length := by omega
    refine ⟨by rw [hshape.1, hlen, List.range_eq_range'], ?_⟩
    have hfl : (List.filter (fun r : StageRes σ => decide (r.status = .completed))
        (runFrom cfg 0 stages ⟨x, clamp cfg 1, none⟩).results).length
        = (runFrom cfg 0 stages ⟨x, clamp cfg 1, none⟩).results.length := by omega
    intro r hr
    have := (List.length_filter_eq_length_iff.mp hfl) r hr
    simpa using this
  · rintro ⟨hidx, hcomp⟩
    have hlen : (runFrom cfg 0 stages ⟨x, clamp cfg 1, none⟩).results.length = stages.length := by
      have := congrArg List.length hidx; simpa using this
    refine ⟨?_, (hall hcomp).1⟩
    unfold completedCount
    rw [List.filter_eq_self.mpr (by intro r hr; simpa using hcomp r hr), hlen]

/-- On success the final output is the composition of the stage functions applied to the input. -/
theorem c19_final_output_is_composition (cfg : Cfg) (stages : List (Stage σ)) (x : σ)
    (hs : (result cfg stages x).success = true) :
    (result cfg stages x).final = compose stages x ∧ (result cfg stages x).final.isSome = true := by
  have h := (c19_success_iff_all_completed_in_order cfg stages x).mp hs
  have hall := runFrom_allCompleted cfg stages 0 ⟨x, clamp cfg 1, none⟩ h.2
  have hlen : (runFrom cfg 0 stages ⟨x, clamp cfg 1, none⟩).results.length = stages.length := by
    have := congrArg List.length h.1; simpa [result, run] using this
  have hc := hall.2 hlen
  have hfin : (result cfg stages x).final = some (run cfg stages x).acc.cur := by
    simp only [result] at hs ⊢; simp [hs]
  rw [hfin]
  exact ⟨hc.symm, rfl⟩

/-- Otherwise no final output is released. -/
theorem c19_no_output_unless_success (cfg : Cfg) (stages : List (Stage σ)) (x : σ)
    (hs : (result cfg stages x).success = false) : (result cfg stages x).final = none := by
  simp only [result] at hs ⊢; simp [hs]

/-- Reported amplification is the clamped product of the completed stages' reported factors, **for every configuration**
    (also a maximum below 1, factors 0 / negative / above the maximum): the running gain starts at 1, is multiplied by the
    factor of every completed stage (1 for a stage completed by its error handler) and is held at `max_amplification` from
    the start and after every step — "clamped product" is this RUNNING clamp (the gain control of the anchored mechanism
    "processor call, amplification clamp" sits inside the loop), which differs from clamping the plain product once a factor
    below 1 follows a clamp (factors 200, 1/2 with maximum 100 report 50: `example` below); where every factor is at least 1
    the two coincide (`c19_amplification_is_clamp_of_plain_product`).  The reported gain never exceeds the maximum. -/
theorem c19_amplification_is_clamped_product (cfg : Cfg) (stages : List (Stage σ)) (x : σ) :
    (result cfg stages x).amplification = clampedProduct cfg (clamp cfg 1) (result cfg stages x).results ∧
    (result cfg stages x).amplification ≤ cfg.maxAmp :=
  runFrom_amp cfg stages 0 ⟨x, clamp cfg 1, none⟩ (clamp_le cfg 1)

/-- With a maximum of at least 1 (every shipped default) the running product starts at exactly 1. -/
theorem c19_amplification_is_clamped_product_from_one (cfg : Cfg) (hmax : 1 ≤ cfg.maxAmp) (stages : List (Stage σ)) (x : σ) :
    (result cfg stages x).amplification = clampedProduct cfg 1 (result cfg stages x).results := by
  have h := (c19_amplification_is_clamped_product cfg stages x).1
  rwa [clamp_id cfg 1 hmax] at h

/-- Where every completed stage's factor is at least 1 (and the maximum is not negative) the running clamp IS the clamp of
    the plain product of the completed stages' factors — the other reading of "clamped product". -/
theorem c19_amplification_is_clamp_of_plain_product (cfg : Cfg) (h0 : 0 ≤ cfg.maxAmp) (stages : List (Stage σ)) (x : σ)
    (hf : ∀ r ∈ (result cfg stages x).results, r.status = .completed → 1 ≤ r.factor) :
    (result cfg stages x).amplification = clamp cfg (plainProduct 1 (result cfg stages x).results) := by
  rw [(c19_amplification_is_clamped_product cfg stages x).1]
  exact clampedProduct_eq_clamp_plain cfg h0 _ 1 hf

/-- **The `on_stage_complete` observer is transparent**, whether it returns or raises: every theorem above also holds for
    a cascade built with an observer, because the reported result is the one of the cascade without it.  (The observer's
    behaviour is a parameter of `resultO` that the model never consults — the correspondence runs returning and raising
    observers against the real code.) -/
theorem c19_observer_is_transparent (cfg : Cfg) (obs : Option StageObs) (stages : List (Stage σ)) (x : σ) :
    (resultO cfg obs stages x).1 = result cfg stages x :=
  runO_transparent cfg obs stages x

/-- The observer is shown a stage only if that stage's processor ran and the stage has a COMPLETED result. -/
theorem c19_observer_sees_only_completed_stages (cfg : Cfg) (obs : Option StageObs) (stages : List (Stage σ)) (x : σ)
    (j : Nat) (hj : j ∈ (resultO cfg obs stages x).2) :
    (∃ r ∈ (result cfg stages x).results, r.idx = j ∧ r.status = .completed) ∧
    (∃ sig, (.proc j sig) ∈ (result cfg stages x).log) :=
  runFromO_seen cfg obs stages 0 ⟨x, clamp cfg 1, none⟩ j hj

/-- **The loop body of the source is the model's.**  `Gen/CascadeTable.lean` is regenerated on every run by evaluating the
    REAL `Cascade.run` on every one-stage pipeline over the behaviour alphabet (checkpoint none/pass/reject/raise and
    pass/reject/raise answered by a gate OBJECT whose own truth value is false x processor ok/raise x handler none/ok/raise x
    required) x both `halt_on_failure` settings x four `max_amplification` values (never clamping, clamping after two completed
    stages, clamping at the first, 0: held from the start) and every two-stage pipeline of required stages x both settings x
    the first three maxima — 4 128 runs; the model reproduces every row: success, final output, completed count, blocked
    stage, per-stage status, the complete callback log and the amplification. -/
theorem c19_stage_table_agrees :
    ∃ rows, Gen.CascadeTable.table = some rows ∧ rows.length = 4128 ∧ rows.all rowAgrees = true := by
  refine ⟨_, rfl, by decide +kernel, by decide +kernel⟩

private def sPassE : Stage Nat := ⟨some fun _ => .ok true, fun x => .ok (x + 1), none, true, 2⟩
private def sRejectE : Stage Nat := ⟨some fun _ => .ok false, fun x => .ok (x + 1), none, true, 2⟩

/-- **The MAPK preset of the model is the shipped one.**  `Gen/CascadeTable.lean :: mapkFacts` is regenerated on every run by
    evaluating the real `MAPKCascade(2, 3, 5)`'s three stage objects: which tiers are gated, their factors (tier k carries the
    k-th constructor factor), `required`, no handlers, and — on a raw input and on the dicts of tier 1 / 2 / 3 as the preset itself
    produces them — every gate's answer (true / false / raises) and the tier every processor outputs (or that it raises).
    `mapkPreset` reproduces all of it, so the clause theorems, which hold for every stage list, speak about the preset. -/
theorem c19_mapk_preset_agrees_with_evaluated_source :
    ∃ f, Gen.CascadeTable.mapkFacts = some f ∧ mapkAgrees f = true := by
  refine ⟨_, rfl, by decide +kernel⟩

/-! ### The source of `Cascade.run`, translated on every run, is the model

`Gen/CascadeTranslated.lean` is regenerated on every run by `harness/vf/extract/py2lean_cascade.py`, which executes the
Python source of `Cascade.run` symbolically (own helper methods inlined, every path of one loop iteration and of the code
after the loop explored; the user callbacks and the configuration are the branching points).  A path the translator cannot
follow is `none`, so the theorems below fail when the source leaves the understood subset (fail closed). -/

/-- Before the first stage the loop-carried state of the source is: the input signal, running gain 1 held at the maximum
    (`min(1.0, max_amplification)`), nothing blocked. -/
theorem c19_translation_agrees_init (cfg : Cfg) (x : σ) :
    Gen.CascadeTranslated.init cfg x = some ⟨x, clamp cfg 1, none⟩ := by
  unfold Gen.CascadeTranslated.init clamp
  (repeat' split) <;> simp_all

local macro "c19_leaf" : tactic =>
  `(tactic| (simp only [Gen.CascadeTranslated.body, modelStep, stageStep, stageSeen, gateOpen, process, procOutcome, clamp,
      procEvs, *] <;> (repeat' split) <;> simp_all))

/-- **One iteration of the source's stage loop is the model's `stageStep`** — for every configuration, observer, stage (any
    checkpoint / processor / handler behaviour, required or not, any factor) and every loop-carried state: same new signal,
    running gain and `blocked_at`, same recorded stage result, same callbacks called in the same order on the same signals,
    same `break` decision, same stages shown to `on_stage_complete`. -/
theorem c19_translation_agrees_loop_body (cfg : Cfg) (obs : Option StageObs) (i : Nat) (s : Stage σ) (a : Acc σ) :
    Gen.CascadeTranslated.body cfg obs i s a = some (modelStep cfg obs i s a) := by
  obtain ⟨halt, mx⟩ := cfg
  obtain ⟨cp, pr, eh, req, amp⟩ := s
  obtain ⟨cur, am, blk⟩ := a
  have hproc : ∀ (cp : Option (σ → Out Bool)), (cp = none ∨ ∃ c, cp = some c ∧ c cur = .ok true) →
      Gen.CascadeTranslated.body ⟨halt, mx⟩ obs i ⟨cp, pr, eh, req, amp⟩ ⟨cur, am, blk⟩ =
        some (modelStep ⟨halt, mx⟩ obs i ⟨cp, pr, eh, req, amp⟩ ⟨cur, am, blk⟩) := by
    intro cp hcp
    rcases hcp with rfl | ⟨c, rfl, hc⟩ <;>
    · cases hp : pr cur with
      | ok v =>
        cases obs with
        | none => c19_leaf
        | some ob => cases ho : ob i <;> c19_leaf
      | raise =>
        cases eh with
        | none => cases halt <;> cases req <;> c19_leaf
        | some h => cases hh : h cur <;> cases halt <;> cases req <;> c19_leaf
  cases cp with
  | none => exact hproc none (Or.inl rfl)
  | some c =>
    cases hc : c cur with
    | raise => cases halt <;> c19_leaf
    | ok b =>
      cases b with
      | false => cases halt <;> c19_leaf
      | true => exact hproc (some c) (Or.inr ⟨c, rfl, hc⟩)

/-- **The source's code after the loop is the model's `finish`** on every state the loop can leave behind (if as many results
    are COMPLETED as there are stages, nothing is blocked — `runFromO_consistent` shows every run ends in such a state):
    success = (completed count = number of stages and nothing blocked), final output only on success, counts, amplification,
    `blocked_at`; `on_cascade_complete` is called last, with the record that is returned, and `run` raises exactly when it
    raises. -/
theorem c19_translation_agrees_finish (cobs : Option CascObs) (n : Nat) (r : Run σ)
    (hcons : completedCount r.results = n → r.acc.blockedAt = none) :
    Gen.CascadeTranslated.finish cobs n r = some (finishC cobs n r) := by
  by_cases hc : completedCount r.results = n
  · have hb := hcons hc
    subst hc
    clear hcons
    cases cobs with
    | none => simp only [Gen.CascadeTranslated.finish, finishC, finish, hb] <;> (repeat' split) <;> simp_all
    | some f =>
      cases hfo : f () <;>
        simp only [Gen.CascadeTranslated.finish, finishC, finish, hb, hfo] <;> (repeat' split) <;> simp_all
  · have hc' : (completedCount r.results == n) = false := by simpa using hc
    cases cobs with
    | none => simp only [Gen.CascadeTranslated.finish, finishC, finish, hc', if_neg hc] <;> (repeat' split) <;> simp_all
    | some f =>
      cases hfo : f () <;>
        simp only [Gen.CascadeTranslated.finish, finishC, finish, hc', if_neg hc, hfo] <;> (repeat' split) <;> simp_all

/-- the hypothesis of `c19_translation_agrees_finish` is met by a run that blocks and by one that succeeds -/
example : (completedCount (run ⟨false, 100⟩ [sRejectE, sPassE] 5).results = 2 → (run ⟨false, 100⟩ [sRejectE, sPassE] 5).acc.blockedAt = none) ∧
    completedCount (run ⟨true, 100⟩ [sPassE, sPassE] 5).results = 2 := by decide

/-- **The translated `run` — prologue, the loop body folded over ANY stage list the way a Python `for` with `break` does,
    epilogue — is the model's run**, for every configuration, both observers, every stage list and every input signal. -/
theorem c19_translated_run_is_model (cfg : Cfg) (obs : Option StageObs) (cobs : Option CascObs) (stages : List (Stage σ))
    (x : σ) :
    runTr (Gen.CascadeTranslated.init cfg) (Gen.CascadeTranslated.body cfg obs) (Gen.CascadeTranslated.finish cobs) stages x =
      some (resultC cfg obs cobs stages x) := by
  have hloop : ∀ (rest : List (Stage σ)) (i : Nat) (a : Acc σ),
      loopTr (Gen.CascadeTranslated.body cfg obs) i rest a = some (runFromO cfg obs i rest a) := by
    intro rest
    induction rest with
    | nil => intro i a; rfl
    | cons s rest ih =>
      intro i a
      simp only [loopTr, runFromO, c19_translation_agrees_loop_body, modelStep]
      split
      · rfl
      · simp only [ih]
  simp only [runTr, c19_translation_agrees_init, hloop,
    c19_translation_agrees_finish cobs stages.length _ (runFromO_consistent cfg obs stages x), resultC]

/-- The model's run with both observers is the run the clause theorems above speak about: without `on_cascade_complete`, or
    with one that returns, the call returns exactly `result cfg stages x`; with one that raises, the call raises (and nothing
    is returned).  Either way the stages shown to `on_stage_complete` are those of `resultO`. -/
theorem c19_completion_observer_is_transparent_or_raises (cfg : Cfg) (obs : Option StageObs) (cobs : Option CascObs)
    (stages : List (Stage σ)) (x : σ) :
    ((resultC cfg obs cobs stages x).1 = .ok (result cfg stages x) ∨ (resultC cfg obs cobs stages x).1 = .raise) ∧
    ((cobs = none ∨ ∃ f, cobs = some f ∧ f () = .ok ()) → (resultC cfg obs cobs stages x).1 = .ok (result cfg stages x)) ∧
    (resultC cfg obs cobs stages x).2 = (resultO cfg obs stages x).2 := by
  have hres : finish stages.length (runFromO cfg obs 0 stages ⟨x, clamp cfg 1, none⟩).1 = result cfg stages x := by
    rw [← c19_observer_is_transparent cfg obs stages x]; rfl
  refine ⟨?_, ?_, rfl⟩
  · simp only [resultC, finishC]
    cases cobs with
    | none => exact Or.inl (by simp [hres])
    | some f => cases hf : f () <;> simp [hres, hf]
  · rintro (rfl | ⟨f, rfl, hf⟩)
    · simp [resultC, finishC, hres]
    · simp [resultC, finishC, hres, hf]

/-- **Where the observer is notified.**  `notes` is the complete sequence of calls into user code during a run — the stages'
    callbacks and the notifications of `on_stage_complete`, in call order.  Leaving the notifications out gives exactly the
    callback log of the result, leaving the callbacks out gives exactly the list of stages shown; and every notification for
    stage `j` comes DIRECTLY after the processor call of stage `j` (no gate, processor or handler of any stage runs in
    between, none is notified before its processor ran, a blocked / failed / skipped / handler-recovered stage is never
    announced), for every observer, configuration and stage list. -/
theorem c19_observer_is_notified_right_after_the_processor (cfg : Cfg) (obs : Option StageObs) (stages : List (Stage σ)) (x : σ) :
    (notes cfg obs stages x).filterMap Note.cb? = (resultO cfg obs stages x).1.log ∧
    (notes cfg obs stages x).filterMap Note.shown? = (resultO cfg obs stages x).2 ∧
    ∀ j, Note.shown j ∈ notes cfg obs stages x →
      ∃ pre post sig, notes cfg obs stages x = pre ++ Note.cb (.proc j sig) :: Note.shown j :: post := by
  have h := notesFrom_project cfg obs stages 0 ⟨x, clamp cfg 1, none⟩
  exact ⟨h.1, h.2, notesFrom_shown cfg obs stages 0 ⟨x, clamp cfg 1, none⟩⟩

/-! ### The history (`get_history`) and `AgentCascade`

Every clause above holds for every configuration, stage list and input; the theorems below say that the two remaining ways in
which the anchored file hands out results or builds pipelines stay inside them: the records kept in the history are results of
`run` (so whatever was withheld by `run` is withheld there too), and an `AgentCascade` is a cascade whose stage list contains
stages of the shape `agentStage` — run by the inherited `run`. -/

/-- **The history holds results of runs, nothing else.**  After any sequence of calls of `run` / `run_parallel` on one cascade
    object (configuration and stage list as they were at each call), every sequential record of `_results_history` is the
    result of one of those `run` calls — so every clause theorem above speaks about every record `get_history` hands out. -/
theorem c19_history_holds_only_results_of_runs (cs : List (Call σ)) (limit : Int) (r : Result σ)
    (hr : HRec.seq r ∈ getHistory (histAfter cs) limit) :
    ∃ cfg stages x, Call.run cfg stages x ∈ cs ∧ r = result cfg stages x := by
  have hmem : HRec.seq r ∈ histAfter cs := by
    unfold getHistory at hr
    split at hr
    · exact mem_lastN hr
    · split at hr
      · exact hr
      · exact List.mem_of_mem_drop hr
  rcases mem_foldl_histStep cs [] r hmem with h | h
  · simp at h
  · exact h

/-- **No final output is released through the history either**: a record of an unsuccessful run carries no output, whatever
    limit `get_history` is asked with (positive, zero, negative), however many calls came before. -/
theorem c19_history_releases_nothing_a_run_withheld (cs : List (Call σ)) (limit : Int) (r : Result σ)
    (hr : HRec.seq r ∈ getHistory (histAfter cs) limit) (hs : r.success = false) : r.final = none := by
  obtain ⟨cfg, stages, x, _, rfl⟩ := c19_history_holds_only_results_of_runs cs limit r hr
  exact c19_no_output_unless_success cfg stages x hs

/-- **The history is the newest 1000 results, oldest first**, for every number of sequential runs (no bound): `run` appends
    and trims, so after the calls `runs` the history is `lastN histCap` of all results ever returned, and `get_history(k)`
    for a positive `k` hands out the newest `min k histCap` of them. -/
theorem c19_history_is_the_newest_results (runs : List (Cfg × List (Stage σ) × σ)) (k : Nat) (hk : 0 < k) :
    histAfter (runs.map fun c => Call.run c.1 c.2.1 c.2.2) =
      lastN histCap (runs.map fun c => HRec.seq (result c.1 c.2.1 c.2.2)) ∧
    getHistory (histAfter (runs.map fun c => Call.run c.1 c.2.1 c.2.2)) k =
      lastN (min k histCap) (runs.map fun c => HRec.seq (result c.1 c.2.1 c.2.2)) := by
  have h1 : histAfter (runs.map fun c => Call.run c.1 c.2.1 c.2.2) =
      lastN histCap (runs.map fun c => HRec.seq (result c.1 c.2.1 c.2.2)) := by
    have := foldl_runs_eq runs ([] : List (HRec σ))
    simpa [histAfter, lastN] using this
  refine ⟨h1, ?_⟩
  rw [h1]
  unfold getHistory
  have hk' : (k : Int) > 0 := by omega
  simp only [hk', if_true, Int.toNat_natCast]
  exact lastN_lastN k histCap _

/-- **The history of the model is the history of the source.**  `Gen/CascadeTable.lean :: histFacts` is regenerated on every
    run by driving the real `Cascade` through 1005 runs (the records kept are the newest 1000, oldest first), a following
    `run_parallel` (appended without trimming: 1001) and one more run (trimmed: 1000), a run whose `on_cascade_complete` raises
    (record kept), a fork of an empty cascade (nothing recorded), `get_history(k)` for k = -7..7 on a five-record history and
    `get_history()` on a 105-record one; `histCap`, `pushSeq`, `pushPar`, `histStep`, `getHistory`, `histDefault` reproduce
    all of it. -/
theorem c19_history_agrees_with_evaluated_source :
    ∃ f, Gen.CascadeTable.histFacts = some f ∧ histAgrees f = true := by
  refine ⟨_, rfl, by decide +kernel⟩

/-- **The statistics count what the runs reported.**  After any sequence of calls, `runs_count` is the number of calls,
    `successful_runs` the number of calls whose result carried `success = true`, `failed_runs` the number whose result
    carried `success = false` (a fork of an empty cascade raises after it was counted and is neither) — so by
    `c19_success_iff_all_completed_in_order` a sequential run is counted as successful exactly when every stage completed in
    order.  `Gen/CascadeTable.lean :: statFacts` (the counters of the real cascades driven for `histFacts`, read through
    `get_statistics()`) are reproduced by the model. -/
theorem c19_statistics_count_what_the_runs_reported (cs : List (Call σ)) :
    (statsAfter cs).runs = cs.length ∧
    (statsAfter cs).ok = (cs.filter fun c => callSucceeded c == some true).length ∧
    (statsAfter cs).bad = (cs.filter fun c => callSucceeded c == some false).length ∧
    (statsAfter cs).ok + (statsAfter cs).bad ≤ (statsAfter cs).runs ∧
    ∃ f, Gen.CascadeTable.statFacts = some f ∧ statsAgrees f = true := by
  obtain ⟨h1, h2, h3⟩ := foldl_statsStep cs ⟨0, 0, 0⟩
  simp only [Nat.zero_add] at h1 h2 h3
  refine ⟨h1, h2, h3, ?_, _, rfl, by decide +kernel⟩
  unfold statsAfter
  rw [h1, h2, h3]
  exact ok_bad_le cs

/-- **An AgentCascade is a cascade.**  `Gen/CascadeTable.lean :: agentFacts` is regenerated on every run by evaluating the
    real `AgentCascade.add_agent_stage` with a stub agent class: `run`, `run_parallel`, `get_history` are the inherited
    functions; the stage registered is gated by exactly the checkpoint handed in (ungated when none is), has no error handler,
    is required, carries the given factor (1 by default), and its processor hands the signal to the agent's `express` (a
    Signal as it is, anything else as `Signal(content=str(x))`), returns the protein's payload as it is and lets an exception
    of `express` through.  `agentStage` is that stage. -/
theorem c19_agent_stage_agrees_with_evaluated_source :
    ∃ f, Gen.CascadeTable.agentFacts = some f ∧ agentAgrees f = true := by
  refine ⟨_, rfl, by decide +kernel⟩

/-- **Agents express only behind a gate that said yes** — the first clause for a pipeline of agent stages and plain stages in
    any mix: an agent's `express` is a processor event, so it is directly preceded by the `true` answer of the checkpoint its
    stage was registered with, on the same signal (instance of `c19_processor_only_after_true_checkpoint`, stated so that the
    quantifier visibly covers `AgentCascade`). -/
theorem c19_agent_expresses_only_after_true_checkpoint (cfg : Cfg) (pre post : List (Stage σ))
    (cp : σ → Out Bool) (express : σ → Out σ) (amp : Rat) (x : σ) :
    GatedFrom (pre ++ agentStage (some cp) express amp :: post) none
      (result cfg (pre ++ agentStage (some cp) express amp :: post) x).log :=
  c19_processor_only_after_true_checkpoint cfg _ x

/-! ### Non-vacuity: concrete pipelines meeting the hypotheses -/

private def sPass : Stage Nat := ⟨some fun _ => .ok true, fun x => .ok (x + 1), none, true, 2⟩
private def sRaiseGate : Stage Nat := ⟨some fun _ => .raise, fun x => .ok (x + 1), none, true, 2⟩
private def sReject : Stage Nat := ⟨some fun _ => .ok false, fun x => .ok (x + 1), none, true, 2⟩

/-- a successful two-stage run: hypotheses of `c19_final_output_is_composition` are satisfiable -/
example : (result ⟨true, 100⟩ [sPass, sPass] 5).success = true ∧
    (result ⟨true, 100⟩ [sPass, sPass] 5).final = some 7 := by decide

/-- a halting run with a blocked stage: hypotheses of `c19_halt_runs_nothing_further` are satisfiable -/
example : ∃ r ∈ (result ⟨true, 100⟩ [sPass, sReject, sPass] 5).results, r.status = .blocked := by decide

/-- the fail-closed case that matters: a raising gate with halt_on_failure = false — the processor of
    that stage does not run, later stages do, and the run is not successful -/
example : (result ⟨false, 100⟩ [sRaiseGate, sPass] 5).log =
      [.cp 0 5 .raise, .cp 1 5 (.ok true), .proc 1 5] ∧
    (result ⟨false, 100⟩ [sRaiseGate, sPass] 5).success = false := by decide

/-- a raising observer on a pipeline with a skipped optional stage: shown stage 1 only, run not successful -/
example : (resultO ⟨true, 100⟩ (some fun _ => .raise)
      [⟨none, fun _ => .raise, none, false, 2⟩, sPass] 5).2 = [1] ∧
    (resultO ⟨true, 100⟩ (some fun _ => .raise)
      [⟨none, fun _ => .raise, none, false, 2⟩, sPass] 5).1.success = false := by decide

/-- factors 2, 2 with maximum 3: hypotheses of `c19_amplification_is_clamp_of_plain_product` hold, reported 3 = clamp of 4 -/
example : (result ⟨true, 3⟩ [sPass, sPass] 5).amplification = 3 ∧
    (∀ r ∈ (result ⟨true, 3⟩ [sPass, sPass] 5).results, r.status = .completed → 1 ≤ r.factor) := by decide +kernel

private def sAmp (f : Rat) : Stage Nat := ⟨none, fun x => .ok (x + 1), none, true, f⟩

/-- the two readings of "clamped product" differ once a factor below 1 follows a clamp: factors 200, 1/2 with maximum 100
    report 50 (running clamp: 100 · 1/2), the plain product 100 clamped would be 100 -/
example : (result ⟨true, 100⟩ [sAmp 200, sAmp (1/2)] 5).amplification = 50 ∧
    clamp ⟨true, 100⟩ (plainProduct 1 (result ⟨true, 100⟩ [sAmp 200, sAmp (1/2)] 5).results) = 100 := by decide +kernel

/-- a maximum below 1: a run whose only stage is completed by its error handler (reported factor 1) reports the maximum, not 1;
    so does a run without stages -/
example : (result ⟨true, 1/2⟩ [⟨none, fun _ => .raise, some fun _ => .ok 9, true, 4⟩] 5).amplification = 1/2 ∧
    (result ⟨true, 1/2⟩ [⟨none, fun _ => .raise, some fun _ => .ok 9, true, 4⟩] 5).success = true ∧
    (result (σ := Nat) ⟨true, 1/2⟩ [] 5).amplification = 1/2 := by decide +kernel

/-- a rejecting gate and a raising gate without halt-on-failure: hypotheses of `c19_closed_gate_never_runs_the_stage` hold -/
example : (Ev.cp 0 5 (.ok false)) ∈ (result ⟨false, 100⟩ [sReject, sPass] 5).log ∧
    (Ev.cp 0 5 .raise) ∈ (result ⟨false, 100⟩ [sRaiseGate, sPass] 5).log := by decide +kernel

/-- the shipped MAPK preset (`mapkPreset`, tied to the source by `c19_mapk_preset_agrees_with_evaluated_source`) as an instance
    of `∀ stages`: the default factors 10·10·10 are held at the default maximum 100 -/
example : (result ⟨true, 100⟩ (mapkPreset 10 10 10) 0).success = true ∧ (result ⟨true, 100⟩ (mapkPreset 10 10 10) 0).final = some 3 ∧
    (result ⟨true, 100⟩ (mapkPreset 10 10 10) 0).amplification = 100 ∧
    (result ⟨true, 1000⟩ (mapkPreset 10 10 10) 0).amplification = 1000 ∧
    (result ⟨true, 100⟩ (mapkPreset 10 10 10) 0).log = [.proc 0 0, .cp 1 1 (.ok true), .proc 1 1, .cp 2 2 (.ok true), .proc 2 2] := by
  decide +kernel

/-- a history with an unsuccessful record in it (hypotheses of `c19_history_releases_nothing_a_run_withheld`), seen through a
    zero, a positive and a negative limit; and a fork in between that is recorded but is no sequential record -/
example : (getHistory (histAfter [Call.run ⟨true, 100⟩ [sPass] 5, .prun [sPass] 1, .run ⟨true, 100⟩ [sReject] 5]) 0).length = 3 ∧
    (getHistory (histAfter [Call.run ⟨true, 100⟩ [sPass] 5, .prun [sPass] 1, .run ⟨true, 100⟩ [sReject] 5]) 1).length = 1 ∧
    (getHistory (histAfter [Call.run ⟨true, 100⟩ [sPass] 5, .prun [sPass] 1, .run ⟨true, 100⟩ [sReject] 5]) (-1)).length = 2 ∧
    (result ⟨true, 100⟩ [sReject] 5).success = false := by decide

/-- an agent stage behind a rejecting gate never expresses; behind a passing gate it does, after the `true` answer -/
example : (result ⟨false, 100⟩ [agentStage (some fun _ => .ok false) (fun x => .ok (x + 1)) 2,
                               agentStage (some fun _ => .ok true) (fun x => .ok (x + 1)) 2] 5).log =
    [.cp 0 5 (.ok false), .cp 1 5 (.ok true), .proc 1 5] := by decide

/-- an observer that raises on every notification, a stage recovered by its handler in the middle: the recovered stage is not
    announced, the two others are, each right after its processor -/
example : notes ⟨false, 100⟩ (some fun _ => .raise)
    [sPass, ⟨none, fun _ => .raise, some fun _ => .ok 9, true, 4⟩, sPass] 5 =
    [.cb (.cp 0 5 (.ok true)), .cb (.proc 0 5), .shown 0, .cb (.proc 1 6), .cb (.eh 1),
     .cb (.cp 2 9 (.ok true)), .cb (.proc 2 9), .shown 2] := by decide

end Operon.Cascade
