import Operon.Lemmas.C19
import Operon.Gen.CascadeTable
/-!
# C19 — cascade gates fail closed and halted pipelines run nothing further

Property theorems only.  Model: `Operon/Model/Cascade.lean` (hand-written, tied to
`operon_ai/topology/cascade.py` by the differential correspondence of `harness/vf/props/c19.py`).
All statements quantify over every configuration, every list of stages, every input signal and every
behaviour of the checkpoint / processor / error-handler callbacks (arbitrary functions that return or raise).
-/
namespace Operon.Cascade

variable {σ : Type}

/-- A stage that has a checkpoint processes a signal only if that checkpoint returned `true` for exactly
    that signal: in the callback log, every processor event of a gated stage is immediately preceded by the
    `true` checkpoint event of the same stage on the same signal.  Holds for both `halt_on_failure` settings
    and for checkpoints that return false or raise. -/
theorem c19_processor_only_after_true_checkpoint (cfg : Cfg) (stages : List (Stage σ)) (x : σ) :
    GatedFrom stages none (result cfg stages x).log := by
  unfold result run
  exact runFrom_gated cfg stages stages 0 ⟨x, 1, none⟩ (by intro k s h; simpa using h) none

/-- Index form of the same statement: if `log[k]` is a processor event of a gated stage then `k ≥ 1` and
    `log[k-1]` is its `true` checkpoint on the same signal. -/
theorem c19_processor_only_after_true_checkpoint_idx (cfg : Cfg) (stages : List (Stage σ)) (x : σ)
    (k i : Nat) (sig : σ) (hk : (result cfg stages x).log[k]? = some (.proc i sig)) (hcp : hasCp stages i) :
    1 ≤ k ∧ (result cfg stages x).log[k - 1]? = some (.cp i sig (.ok true)) := by
  have key : ∀ (l : List (Ev σ)) (p : Option (Ev σ)) (k : Nat), GatedFrom stages p l →
      l[k]? = some (.proc i sig) →
      (k = 0 ∧ p = some (.cp i sig (.ok true))) ∨ (1 ≤ k ∧ l[k - 1]? = some (.cp i sig (.ok true))) := by
    intro l
    induction l with
    | nil => intro p k _ h; simp at h
    | cons e l ih =>
      intro p k hg h
      cases k with
      | zero =>
        simp at h; subst h
        exact Or.inl ⟨rfl, hg.1 i sig rfl hcp⟩
      | succ k =>
        simp at h
        rcases ih (some e) k hg.2 h with ⟨hk0, hp⟩ | ⟨hk1, hp⟩
        · subst hk0; right; simp at hp; simp [hp]
        · right; refine ⟨by omega, ?_⟩
          have : k + 1 - 1 = (k - 1) + 1 := by omega
          rw [this]; simpa using hp
  rcases key _ none k (c19_processor_only_after_true_checkpoint cfg stages x) hk with ⟨_, h⟩ | h
  · cases h
  · exact h

/-- With halt-on-failure, after a stage that ended BLOCKED or FAILED (a rejected or raising gate, or a
    required stage whose processor failed without recovery) no callback of any later stage runs and no later
    stage produces a result. -/
theorem c19_halt_runs_nothing_further (cfg : Cfg) (hh : cfg.halt = true) (stages : List (Stage σ)) (x : σ)
    (r : StageRes σ) (hr : r ∈ (result cfg stages x).results)
    (hst : r.status = .blocked ∨ r.status = .failed) :
    (∀ e ∈ (result cfg stages x).log, e.idx ≤ r.idx) ∧
    (∀ r' ∈ (result cfg stages x).results, r'.idx ≤ r.idx) :=
  runFrom_halt cfg hh stages 0 ⟨x, 1, none⟩ r hr hst

/-- A run is reported successful exactly when every stage, in order, produced a COMPLETED result. -/
theorem c19_success_iff_all_completed_in_order (cfg : Cfg) (stages : List (Stage σ)) (x : σ) :
    (result cfg stages x).success = true ↔
      ((result cfg stages x).results.map (·.idx) = List.range stages.length ∧
       ∀ r ∈ (result cfg stages x).results, r.status = .completed) := by
  have hshape := runFrom_shape cfg stages 0 ⟨x, 1, none⟩
  have hall := runFrom_allCompleted cfg stages 0 ⟨x, 1, none⟩
  simp only [result, run, Bool.and_eq_true, beq_iff_eq, Option.isNone_iff_eq_none]
  constructor
  · rintro ⟨hc, -⟩
    unfold completedCount at hc
    have hle := List.length_filter_le (fun r : StageRes σ => decide (r.status = .completed))
      (runFrom cfg 0 stages ⟨x, 1, none⟩).results
    have hlen : (runFrom cfg 0 stages ⟨x, 1, none⟩).results.length = stages.length := by omega
    refine ⟨by rw [hshape.1, hlen, List.range_eq_range'], ?_⟩
    have hfl : (List.filter (fun r : StageRes σ => decide (r.status = .completed))
        (runFrom cfg 0 stages ⟨x, 1, none⟩).results).length
        = (runFrom cfg 0 stages ⟨x, 1, none⟩).results.length := by omega
    intro r hr
    have := (List.length_filter_eq_length_iff.mp hfl) r hr
    simpa using this
  · rintro ⟨hidx, hcomp⟩
    have hlen : (runFrom cfg 0 stages ⟨x, 1, none⟩).results.length = stages.length := by
      have := congrArg List.length hidx; simpa using this
    refine ⟨?_, (hall hcomp).1⟩
    unfold completedCount
    rw [List.filter_eq_self.mpr (by intro r hr; simpa using hcomp r hr), hlen]

/-- On success the final output is the composition of the stage functions applied to the input. -/
theorem c19_final_output_is_composition (cfg : Cfg) (stages : List (Stage σ)) (x : σ)
    (hs : (result cfg stages x).success = true) :
    (result cfg stages x).final = compose stages x ∧ (result cfg stages x).final.isSome = true := by
  have h := (c19_success_iff_all_completed_in_order cfg stages x).mp hs
  have hall := runFrom_allCompleted cfg stages 0 ⟨x, 1, none⟩ h.2
  have hlen : (runFrom cfg 0 stages ⟨x, 1, none⟩).results.length = stages.length := by
    have := congrArg List.length h.1; simpa [result, run] using this
  have hc := hall.2 hlen
  have hfin : (result cfg stages x).final = some (run cfg stages x).acc.cur := by
    simp only [result] at hs ⊢; simp [hs]
  rw [hfin]
  exact ⟨hc.symm, rfl⟩

/-- Otherwise no final output is released. -/
theorem c19_no_output_unless_success (cfg : Cfg) (stages : List (Stage σ)) (x : σ)
    (hs : (result cfg stages x).success = false) : (result cfg stages x).final = none := by
  simp only [result] at hs ⊢; simp [hs]

/-- Reported amplification is the running clamped product of the completed stages' reported factors. -/
theorem c19_amplification_is_clamped_product (cfg : Cfg) (hmax : 1 ≤ cfg.maxAmp) (stages : List (Stage σ)) (x : σ) :
    (result cfg stages x).amplification = clampedProduct cfg 1 (result cfg stages x).results ∧
    (result cfg stages x).amplification ≤ cfg.maxAmp :=
  runFrom_amp cfg stages 0 ⟨x, 1, none⟩ hmax

/-- **The `on_stage_complete` observer is transparent**, whether it returns or raises: every theorem above also holds for
    a cascade built with an observer, because the reported result is the one of the cascade without it.  (The observer's
    behaviour is a parameter of `resultO` that the model never consults — the correspondence runs returning and raising
    observers against the real code.) -/
theorem c19_observer_is_transparent (cfg : Cfg) (obs : Option StageObs) (stages : List (Stage σ)) (x : σ) :
    (resultO cfg obs stages x).1 = result cfg stages x :=
  runO_transparent cfg obs stages x

/-- The observer is shown a stage only if that stage's processor ran and the stage has a COMPLETED result. -/
theorem c19_observer_sees_only_completed_stages (cfg : Cfg) (obs : Option StageObs) (stages : List (Stage σ)) (x : σ)
    (j : Nat) (hj : j ∈ (resultO cfg obs stages x).2) :
    (∃ r ∈ (result cfg stages x).results, r.idx = j ∧ r.status = .completed) ∧
    (∃ sig, (.proc j sig) ∈ (result cfg stages x).log) :=
  runFromO_seen cfg obs stages 0 ⟨x, 1, none⟩ j hj

/-- **The loop body of the source is the model's.**  `Gen/CascadeTable.lean` is regenerated on every run by evaluating the
    REAL `Cascade.run` on every one-stage pipeline and every two-stage pipeline of required stages over the behaviour
    alphabet (checkpoint none/pass/reject/raise x processor ok/raise x handler none/ok/raise x required) x both
    `halt_on_failure` settings x three `max_amplification` values (never clamping, clamping after two completed stages, clamping
    at the first) — 3 744 runs; the model reproduces every row: success, final output, completed count,
    blocked stage, per-stage status, the complete callback log and the amplification. -/
theorem c19_stage_table_agrees :
    ∃ rows, Gen.CascadeTable.table = some rows ∧ rows.length = 3744 ∧ rows.all rowAgrees = true := by
  refine ⟨_, rfl, by decide +kernel, by decide +kernel⟩

/-! ### Non-vacuity: concrete pipelines meeting the hypotheses -/

private def sPass : Stage Nat := ⟨some fun _ => .ok true, fun x => .ok (x + 1), none, true, 2⟩
private def sRaiseGate : Stage Nat := ⟨some fun _ => .raise, fun x => .ok (x + 1), none, true, 2⟩
private def sReject : Stage Nat := ⟨some fun _ => .ok false, fun x => .ok (x + 1), none, true, 2⟩

/-- a successful two-stage run: hypotheses of `c19_final_output_is_composition` are satisfiable -/
example : (result ⟨true, 100⟩ [sPass, sPass] 5).success = true ∧
    (result ⟨true, 100⟩ [sPass, sPass] 5).final = some 7 := by decide

/-- a halting run with a blocked stage: hypotheses of `c19_halt_runs_nothing_further` are satisfiable -/
example : ∃ r ∈ (result ⟨true, 100⟩ [sPass, sReject, sPass] 5).results, r.status = .blocked := by decide

/-- the fail-closed case that matters: a raising gate with halt_on_failure = false — the processor of
    that stage does not run, later stages do, and the run is not successful -/
example : (result ⟨false, 100⟩ [sRaiseGate, sPass] 5).log =
      [.cp 0 5 .raise, .cp 1 5 (.ok true), .proc 1 5] ∧
    (result ⟨false, 100⟩ [sRaiseGate, sPass] 5).success = false := by decide

/-- a raising observer on a pipeline with a skipped optional stage: shown stage 1 only, run not successful -/
example : (resultO ⟨true, 100⟩ (some fun _ => .raise)
      [⟨none, fun _ => .raise, none, false, 2⟩, sPass] 5).2 = [1] ∧
    (resultO ⟨true, 100⟩ (some fun _ => .raise)
      [⟨none, fun _ => .raise, none, false, 2⟩, sPass] 5).1.success = false := by decide

end Operon.Cascade
