-- Root of the `Operon` library: models, lemmas and property theorems.
import Operon.Model.Proto
import Operon.Model.Cascade
