#!/usr/bin/env python3
"""Confirm a seeded change and run a check against it, in a scratch copy of /repo (never in /repo itself).

usage: tools/seedtest.py <dir-with-patch.diff-demo.py-meta.json> [--prop Cxx] [--tier quick] [--suite] [--keep]
Prints a JSON summary: demo exit codes without/with the patch, suite result (with --suite), check exit code,
VIOLATION line.
"""
import argparse
import json
import os
import shutil
import subprocess
import sys
import tempfile

VERIF = os.path.dirname(os.path.dirname(os.path.abspath(__file__)))


def sh(cmd, cwd=None, env=None, timeout=3600):
    e = dict(os.environ)
    if env:
        e.update(env)
    p = subprocess.run(cmd, shell=True, cwd=cwd, env=e, capture_output=True, text=True, timeout=timeout)
    return p.returncode, p.stdout, p.stderr


def main():
    ap = argparse.ArgumentParser()
    ap.add_argument("dir")
    ap.add_argument("--prop")
    ap.add_argument("--tier", default="quick")
    ap.add_argument("--suite", action="store_true")
    ap.add_argument("--keep", action="store_true")
    ap.add_argument("--seed", default="0")
    ap.add_argument("--save", default=None, help="name under /verif/seeded/<prop>/ to keep this change (with what was run)")
    a = ap.parse_args()
    d = os.path.abspath(a.dir)
    meta = json.load(open(os.path.join(d, "meta.json"))) if os.path.exists(os.path.join(d, "meta.json")) else {}
    prop = a.prop or meta.get("property")
    tmp = tempfile.mkdtemp(prefix=f"st_{prop}_")
    repo = os.path.join(tmp, "repo")
    out = os.path.join(tmp, "out")
    res = {"dir": d, "property": prop}
    try:
        sh(f"rsync -a --exclude .git --exclude __pycache__ /repo/ {repo}/")
        env = {"PYTHONPATH": repo, "PYTHONDONTWRITEBYTECODE": "1"}
        demo = os.path.join(d, "demo.py")
        if os.path.exists(demo):
            rc, o, e = sh(f"/venv/bin/python {demo}", cwd=tmp, env=env, timeout=600)
            res["demo_clean_rc"] = rc
        rc, o, e = sh(f"patch -p1 --no-backup-if-mismatch < {os.path.join(d, 'patch.diff')}", cwd=repo)
        res["patch_applies"] = rc == 0
        if rc != 0:
            res["patch_err"] = (o + e)[-500:]
            print(json.dumps(res, indent=1))
            return 3
        if os.path.exists(demo):
            rc, o, e = sh(f"/venv/bin/python {demo}", cwd=tmp, env=env, timeout=600)
            res["demo_patched_rc"] = rc
            res["demo_patched_out"] = (o + e)[-400:]
        if a.suite:
            rc, o, e = sh("/venv/bin/python -m pytest -q -p no:cacheprovider --timeout=900 -x tests 2>&1 | tail -3", cwd=repo, env=env)
            res["suite_tail"] = o.strip().splitlines()[-1:] if o.strip() else []
        # private copy of the lean project (extractors rewrite Operon/Gen): the shared one stays clean
        lean_copy = os.path.join(tmp, "lean")
        sh(f"cp -r {os.path.join(VERIF, 'lean')} {lean_copy}")
        rc, o, e = sh(f"./check {prop} --tier {a.tier}", cwd=VERIF,
                      env={"OPERON_REPO": repo, "VERIF_OUT": out, "VERIF_SEED": a.seed, "VERIF_LEAN": lean_copy},
                      timeout=3000)
        res["check_rc"] = rc
        res["check_lines"] = [l for l in o.splitlines() if l.startswith(("VIOLATION", "KNOWN", "["))]
        if rc == 2:
            res["check_err"] = e[-800:]
        rp = [l.split("replay=")[1].split()[0] for l in o.splitlines() if l.startswith("VIOLATION")]
        if rp:
            p = rp[0] if os.path.isabs(rp[0]) else os.path.join(out, rp[0])
            if os.path.exists(p):
                body = json.load(open(p))
                res["replay"] = {k: body.get(k) for k in ("kind", "failing_input_found", "history", "oracle")}
                if a.keep:
                    shutil.copy(p, os.path.join(d, "replay_from_check.json"))
        res["caught"] = rc == 1
        if a.save:
            dst = os.path.join(VERIF, "seeded", prop, a.save)
            os.makedirs(dst, exist_ok=True)
            for f in ("patch.diff", "demo.py"):
                if os.path.exists(os.path.join(d, f)):
                    shutil.copy(os.path.join(d, f), os.path.join(dst, f))
            m = dict(meta)
            m["property"] = prop
            m["confirmed_by_coordinator"] = {
                "how": "scratch copy of /repo at its current HEAD (rsync, patch -p1), PYTHONPATH=<copy>; "
                       "demo.py run without and with the patch; full test suite with the patch (when --suite); "
                       "then OPERON_REPO=<copy> ./check " + prop + " --tier " + a.tier,
                "repo_head": sh("git -C /repo rev-parse --short HEAD")[1].strip(),
                "demo_rc_without_patch": res.get("demo_clean_rc"), "demo_rc_with_patch": res.get("demo_patched_rc"),
                "suite_with_patch": res.get("suite_tail"),
                "check_exit": rc, "check_lines": res["check_lines"],
                "check_replay": res.get("replay"),
            }
            json.dump(m, open(os.path.join(dst, "meta.json"), "w"), indent=1, default=str)
        def clip(o, n=1500):
            if isinstance(o, str):
                return o if len(o) <= n else o[:n] + '…'
            if isinstance(o, list):
                return [clip(x, n) for x in o[:40]]
            if isinstance(o, dict):
                return {k: clip(v, n) for k, v in o.items()}
            return o
        print(json.dumps(clip(res), indent=1, default=str))
        return 0
    finally:
        shutil.rmtree(tmp, ignore_errors=True)


if __name__ == "__main__":
    sys.exit(main())
