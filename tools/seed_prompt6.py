#!/usr/bin/env python3
"""round-6 seeding prompt: ONE change per property, several properties per agent; the break lives AWAY from the obvious place
(shared types, base classes, defaults, helper modules, callers) or needs two cooperating edits. Property texts + what was tried; nothing else from /verif.
usage: tools/seed_prompt6.py <tag> C01 C02 ..."""
import glob, json, os, re, sys
tag, pids = sys.argv[1], sys.argv[2:]
props = {json.loads(l)['id']: json.loads(l) for l in open('/verif/properties.jsonl')}
wt = f"/tmp/wt6_{tag}"
blocks = []
for pid in pids:
    p = props[pid]
    tried = []
    for m in sorted(glob.glob(f'/verif/seeded/{pid}/[mnkp]*/meta.json')):
        s = re.sub(r"\s+", " ", str(json.load(open(m)).get('summary', '')))[:200]
        tried.append("      - " + s)
    blocks.append(f"""  [{pid}] TITLE: {p['title']}
    STATEMENT: {p['statement']}
    QUANTIFIED OVER: {p['quantifier']['text']}
    RELEVANT FILES: {', '.join(p['anchors']['files'])}
    MECHANISMS: {'; '.join(m['name'] + ' @ ' + m['where'] for m in p['anchors']['mechanism'])}
    OBSERVED AT: {'; '.join(p['anchors'].get('observe_at', []))}
    ALREADY TRIED by others for this property (do NOT repeat these or close variants):
{chr(10).join(tried)}""")
print(f"""You are testing how robust a Python library is against subtle regressions. The library (coredipper/operon, package operon_ai: biology-themed agent control motifs) is checked out for you as a scratch git worktree at {wt} (your own copy: edit it freely; do NOT touch /repo or /verif, do not read anything under /verif; do NOT use `git stash`; for comparisons against the original make a copy with `git -C {wt} archive HEAD | tar -x -C <dir>`). Python with the library's dependencies: /venv/bin/python - always run with PYTHONPATH={wt} so that YOUR copy is imported (check `operon_ai.__file__`). Test suite: `cd {wt} && PYTHONPATH={wt} /venv/bin/python -m pytest -q -p no:cacheprovider --timeout=900 tests` (658 tests, all pass on the unmodified copy, ~12 s).

The library is supposed to satisfy these semantic properties:

{chr(10).join(blocks)}

TASK: for EACH of the {len(pids)} properties above produce ONE change to the library source that breaks that property (as stated, observable at the OBSERVED AT points through the public API) such that, taken alone:
  (a) the code still imports and the existing test suite still passes completely (run it!),
  (b) the property is now violated,
  (c) the violation needs something specific to manifest - a particular multi-step sequence of operations, an unusual but legal input or configuration, a fault at a particular point, a particular interleaving - NOT something ordinary use would expose at once,
  (d) you have a demonstration: a small standalone Python program demo.py (no pytest; exit code 0 = property held, 1 = violated, printing what went wrong) that exits 1 WITH the change and 0 WITHOUT it.
THE POINT OF THIS ROUND: the edit must NOT sit in the obvious place. Pick, per property, one of these (vary them across your properties):
  * the edit is in a SHARED DEFINITION the mechanism depends on rather than in the mechanism: a dataclass / enum / exception class / constant in core/types.py or another shared module, a base class method, a default value of a dataclass field or constructor parameter, an `__eq__`/`__hash__`/`__bool__`/`__lt__`/`__post_init__` of a value type, a helper function in another module, a module-level table;
  * the edit is in a CALLER, WRAPPER or PRESET that feeds the mechanism (a convenience constructor, a factory/preset, an integration class, an `__init__.py` default, a subclass shipped by the library) so that the mechanism itself is untouched but is now reached with arguments / state / ordering under which the property fails at the observation points;
  * TWO COOPERATING EDITS in different functions or files, each of which is behaviour-preserving on its own (you must check that: each half alone keeps demo.py at exit 0), that break the property only together;
  * an edit to ERROR / EDGE handling far from the happy path: what an `except` catches (narrowed, widened, re-raised as another class), a `finally` that no longer runs on one path, a `__del__`/context-manager exit, clean-up ordering, a default branch of a dispatch.
Keep each patch realistic and small (5-50 changed lines), in the tone of an ordinary maintenance commit.

DELIVERABLE, for each property id P, in /tmp/seed_out/P/q1/ :
  - patch.diff   (`git -C {wt} diff` of that change alone, relative to the unmodified worktree HEAD; must apply with `git apply` to a clean checkout)
  - demo.py      (the demonstration; takes no arguments; imports operon_ai from PYTHONPATH)
  - meta.json    {{"property": "P", "summary": "...what was changed, where, and which of the four kinds above it is...", "clause_broken": "...", "needs_to_manifest": "...the specific sequence/input/fault...", "verified": "...exact commands you ran and their results (suite pass count with the patch, demo exit codes with and without the patch; for cooperating edits: demo exit code with each half alone)..."}}
Work on one property at a time: edit, run the suite, run the demo, save the diff (mkdir -p the directory), then `git -C {wt} checkout -- .` (and remove any new untracked files) before the next one. Leave the worktree clean when you finish. Reply with a short summary of the changes.""")
