#!/usr/bin/env python3
"""round-5 seeding prompt: a property-breaking change DISGUISED as a clean-up. Property text + what was tried; nothing else from /verif."""
import glob, json, os, re, sys
pid = sys.argv[1]
p = [json.loads(l) for l in open('/verif/properties.jsonl') if json.loads(l)['id'] == pid][0]
tried = []
for m in sorted(glob.glob(f'/verif/seeded/{pid}/[mnk]*/meta.json')):
    s = re.sub(r"\s+", " ", str(json.load(open(m)).get('summary', '')))[:260]
    tried.append("  - " + s)
wt = f"/tmp/wt5_{pid}"
print(f"""You are testing how robust a Python library is against subtle regressions. The library (coredipper/operon, package operon_ai: biology-themed agent control motifs) is checked out for you as a scratch git worktree at {wt} (your own copy: edit it freely; do NOT touch /repo or /verif, do not read anything under /verif; do NOT use `git stash` — it is shared between worktrees; for comparisons against the original make a copy with `git -C {wt} archive HEAD | tar -x -C <dir>`). Python with the library's dependencies: /venv/bin/python — always run with PYTHONPATH={wt} so that YOUR copy is imported (check `operon_ai.__file__`). Test suite: `cd {wt} && PYTHONPATH={wt} /venv/bin/python -m pytest -q -p no:cacheprovider --timeout=900 tests` (658 tests, all pass on the unmodified copy).

The library is supposed to satisfy this semantic property:

  TITLE: {p['title']}
  STATEMENT: {p['statement']}
  QUANTIFIED OVER: {p['quantifier']['text']}
  RELEVANT FILES: {', '.join(p['anchors']['files'])}

TASK: produce THREE independent changes to the library source, each of which LOOKS LIKE A PURE CLEAN-UP to a code reviewer but breaks the property on a narrow set of inputs or histories. For each change taken alone:
  (a) the code still imports and the existing test suite still passes completely (run it!),
  (b) the property above is now violated,
  (c) the violation needs something specific to manifest — a particular multi-step sequence of operations, an unusual input or configuration, a fault at a particular point, a particular interleaving — NOT something ordinary use would expose at once,
  (d) you have a demonstration: a small standalone Python program demo.py (no pytest; exit code 0 = property held, 1 = violated, printing what went wrong) that exits 1 WITH the change and 0 WITHOUT it.
The disguise is the point of this round. Use one of these per change (three different ones):
  * HELPER EXTRACTION / INLINING that subtly changes evaluation order, what is inside a try block or a `with lock:` region, which value a variable holds when the helper reads it, or what an early return skips;
  * GUARD CLAUSES / FLATTENED CONDITIONS / TABLE DISPATCH whose rewritten condition differs from the original on one combination (a `<` for `<=`, De Morgan slip, a falsy-but-not-None value, a missing table entry with a plausible default, enum identity vs equality);
  * CONSTANT HOISTING / REPRESENTATION CHANGE that is not equivalent in a corner (a mutable default or class-level container now shared between instances; a set where order mattered; a deque(maxlen) that drops what a list kept; a tuple snapshot taken at the wrong time; a cached/pre-computed value that goes stale when a public attribute is re-assigned; float vs exact arithmetic);
  * "ADDITIVE" CHANGE that is not inert: a new keyword parameter whose default does NOT reproduce the old path in a corner, a "read-only" accessor or __repr__ or property that mutates state (lazy initialisation, pruning, counter bump) and is called on a hot path or by logging, a logging call whose argument expression has a side effect or can raise.
Keep each patch realistic and small (10–60 changed lines), with the commit-message tone of a refactoring.

ALREADY TRIED by others (do NOT repeat these or close variants):
{chr(10).join(tried)}

DELIVERABLE, for i = 1, 2, 3, in /tmp/seed_out/{pid}/p<i>/ :
  - patch.diff   (`git -C {wt} diff` of that change alone, relative to the unmodified worktree HEAD; must apply with `git apply` to a clean checkout)
  - demo.py      (the demonstration; takes no arguments; imports operon_ai from PYTHONPATH)
  - meta.json    {{"property": "{pid}", "summary": "...what was changed and how it is disguised...", "clause_broken": "...", "needs_to_manifest": "...the specific sequence/input/fault...", "verified": "...exact commands you ran and their results (suite pass count with the patch, demo exit codes with and without the patch)..."}}
Work on one change at a time: edit, run the suite, run the demo, save the diff, then `git -C {wt} checkout -- .` before the next one. Leave the worktree clean when you finish. Reply with a short summary of the three changes.""")
