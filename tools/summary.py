#!/usr/bin/env python3
"""Print the as-built status table (markdown) from claims, findings, evidence and seeded/ metadata."""
import glob, json, os
here = os.path.dirname(os.path.dirname(os.path.abspath(__file__)))
claims = json.load(open(f"{here}/tools/claims.json"))["checks"]
finds = json.load(open(f"{here}/known_findings.json"))["findings"]
props = [json.loads(l) for l in open(f"{here}/properties.jsonl")]
print("| prop | claimed | theorems (discharged/obligations) | fix commits | open findings | seeded changes caught |")
print("|---|---|---|---|---|---|")
for p in props:
    i = p["id"]
    ev = f"{here}/evidence/{i}.json"
    th = "-"
    if os.path.exists(ev):
        c = json.load(open(ev))["coverage"]
        th = f"{c.get('discharged')}/{c.get('obligations')}"
    fx = [f.get("commit", "?") for f in finds if f["property"] == i and f["status"] == "fixed"]
    op = [f["id"] for f in finds if f["property"] == i and f["status"] == "open"]
    seeds = []
    mat = (json.load(open(f"{here}/seeded/matrix.json")) if os.path.exists(f"{here}/seeded/matrix.json") else {}).get(i, {})
    for m in sorted(glob.glob(f"{here}/seeded/{i}/*/meta.json")):
        mj = json.load(open(m))
        c = mj.get("confirmed_by_coordinator", {})
        rp = c.get("check_replay") or {}
        tag = "caught" if c.get("check_exit") == 1 else "MISSED"
        if c.get("check_exit") == 1 and not rp.get("failing_input_found", False):
            tag += " (no-failing-input-found)"
        nm = os.path.basename(os.path.dirname(m))
        r = mat.get(nm)
        if nm.startswith("h") and not r:
            tag = "quiet" if c.get("check_exit") == 0 else "ALARM"
        if r:   # latest re-run against the current checks
            if nm.startswith("h"):
                tag = "quiet" if r.get("check_rc") == 0 else "ALARM"
            elif r.get("patch_applies") is False:
                tag = "n/a on HEAD"
            elif r.get("check_rc") == 1:
                tag = "caught" if r.get("failing_input_found") else "caught (no-failing-input-found)"
            elif r.get("check_rc") == 0 and r.get("demo_patched_rc") == 0:
                tag = "neutralised"
            else:
                tag = "MISSED"
        seeds.append(f"{nm}: {tag}")
    print(f"| {i} | {'yes' if i in claims else 'no'} | {th} | {', '.join(fx) or '-'} | {', '.join(op) or '-'} | {'; '.join(seeds) or '-'} |")
