#!/usr/bin/env python3
"""Print the as-built status table (markdown) from claims, findings, evidence and seeded/ metadata."""
import glob, json, os
here = os.path.dirname(os.path.dirname(os.path.abspath(__file__)))
claims = json.load(open(f"{here}/tools/claims.json"))["checks"]
finds = json.load(open(f"{here}/known_findings.json"))["findings"]
props = [json.loads(l) for l in open(f"{here}/properties.jsonl")]
print("| prop | claimed | theorems (discharged/obligations) | fix commits | open findings | seeded changes caught |")
print("|---|---|---|---|---|---|")
for p in props:
    i = p["id"]
    ev = f"{here}/evidence/{i}.json"
    th = "-"
    if os.path.exists(ev):
        c = json.load(open(ev))["coverage"]
        th = f"{c.get('discharged')}/{c.get('obligations')}"
    fx = [f.get("commit", "?") for f in finds if f["property"] == i and f["status"] == "fixed"]
    op = [f["id"] for f in finds if f["property"] == i and f["status"] == "open"]
    seeds = []
    for m in sorted(glob.glob(f"{here}/seeded/{i}/*/meta.json")):
        mj = json.load(open(m))
        c = mj.get("confirmed_by_coordinator", {})
        rp = c.get("check_replay") or {}
        tag = "caught" if c.get("check_exit") == 1 else "MISSED"
        if c.get("check_exit") == 1 and not rp.get("failing_input_found", False):
            tag += " (no-failing-input-found)"
        seeds.append(f"{os.path.basename(os.path.dirname(m))}: {tag}")
    print(f"| {i} | {'yes' if i in claims else 'no'} | {th} | {', '.join(fx) or '-'} | {', '.join(op) or '-'} | {'; '.join(seeds) or '-'} |")
