#!/usr/bin/env python3
"""print the prompt for a HARMLESS-refactoring sub-agent (false-alarm drill): property texts only, nothing from /verif."""
import json, os, sys
pids = sys.argv[1:]
H0 = int(os.environ.get("H_START", "1"))   # first index: h<H0>..h<H0+2>
wt = "/tmp/wt_h_" + "_".join(pids)
props = {json.loads(l)['id']: json.loads(l) for l in open('/verif/properties.jsonl')}
blocks = []
for pid in pids:
    p = props[pid]
    blocks.append(f"""  [{pid}] TITLE: {p['title']}
  STATEMENT: {p['statement']}
  QUANTIFIED OVER: {p['quantifier']['text']}
  RELEVANT FILES: {', '.join(p['anchors']['files'])}
  MECHANISMS: {'; '.join(m['name'] + ' @ ' + m['where'] for m in p['anchors']['mechanism'])}""")
print(f"""You are a maintainer doing clean-up work on a Python library. The library (coredipper/operon, package operon_ai: biology-themed agent control motifs) is checked out for you as a scratch git worktree at {wt} (your own copy: edit it freely; do NOT touch /repo or /verif, do not read anything under /verif). Python with the library's dependencies: /venv/bin/python — always run with PYTHONPATH={wt} so that YOUR copy is imported (check `operon_ai.__file__`). Test suite: `cd {wt} && PYTHONPATH={wt} /venv/bin/python -m pytest -q -p no:cacheprovider --timeout=900 tests` (658 tests, all pass on the unmodified copy).

The library satisfies these semantic properties and MUST KEEP satisfying them:

{chr(10).join(blocks)}

TASK: for EACH property above produce THREE independent, realistic, BEHAVIOUR-PRESERVING changes to the code the property is about (the functions named under MECHANISMS and their immediate helpers) — the kind of patch a maintainer merges without a second thought — one of each kind:
  (1) a STRUCTURAL REFACTORING of the mechanism itself: extract a helper method / inline a helper, restructure the control flow (early returns instead of nested ifs, a loop rewritten as a comprehension or vice versa, an if/elif chain turned into a table dispatch, a try block narrowed or split without changing what is caught where), rename local variables and private (underscore) attributes/methods, reorder statements that are independent of each other;
  (2) a REPRESENTATION change behind the same public surface: a module-level constant or table moved to a class attribute (or the other way round) or rebuilt in another equivalent form (tuple vs list vs frozenset where order/mutability is not observable, a dict literal built by a comprehension, a regex pre-compiled, a constant expressed differently, a dataclass gaining a private cached field), a private container type changed where callers cannot observe it;
  (3) an ADDITIVE change that leaves existing behaviour alone: a new optional keyword argument whose default reproduces the old behaviour, a new read-only statistics/introspection method or field, extra logging through the `logging` module at DEBUG level, type hints and docstrings, a new `__repr__`.
Each change, taken alone, must (a) import and pass the full test suite (run it!), (b) keep the property true, and — stronger — (c) preserve the observable behaviour of every PUBLIC function, method and attribute of the touched classes on ALL inputs and histories: same return values (including the exact text of result/error messages and the type of raised exceptions), same exceptions, same order and arguments of every user-callback invocation, same values of public attributes after every call, same locking behaviour (which locks are taken in which order around which accesses), same console output when not silent. Do not fix bugs, do not change defaults, do not change rounding. Keep each patch between roughly 10 and 80 changed lines, and make it a REAL restructuring, not whitespace or comments only.
For each change also write demo.py: a standalone program that exercises the property's clauses on your copy over a reasonable spread of inputs/histories (including the unusual ones the QUANTIFIED OVER text mentions) and exits 0 if the property held, 1 otherwise; it must exit 0 both WITHOUT and WITH your change. Additionally compare old and new behaviour differentially where you can (e.g. run the same random histories against a pristine copy of the original code — `git archive HEAD | tar -x -C <dir>`, NEVER `git stash`, which is shared between worktrees — in a subprocess and compare printed transcripts) and say in meta.json what you compared.

DELIVERABLE, for each property id P and i = 1, 2, 3 (kind (i)), in /tmp/seed_out/P/h<i+{H0-1}>/ (that is h{H0}, h{H0+1}, h{H0+2}) :
  - patch.diff   (`git -C {wt} diff` of that change alone, relative to the unmodified worktree HEAD; must apply with `git apply` to a clean checkout)
  - demo.py      (takes no arguments; imports operon_ai from PYTHONPATH; exit 0 = property held)
  - meta.json    {{"property": "P", "kind": "harmless-refactor", "summary": "...what was changed...", "why_behaviour_preserving": "...", "verified": "...exact commands you ran and their results (suite pass count with the patch, demo exit codes with and without the patch, differential comparison)..."}}
Work on one change at a time: edit, run the suite, run the demo, save the diff, then `git -C {wt} checkout -- .` before the next one. Leave the worktree clean (checked out, no edits) when you finish. Reply with a short summary of the changes.""")
