#!/usr/bin/env python3
"""tools/selfmut.py <prop> <name> <repo-relative-file> <<< 'OLD\n=====\nNEW'   -> builds a patch from a textual replacement in a scratch
copy of /repo and runs tools/seedtest.py on it (mutation drill; nothing is written to /repo)."""
import json, os, subprocess, sys, tempfile, shutil
prop, name, rel = sys.argv[1:4]
extra = sys.argv[4:]
old, new = sys.stdin.read().split("\n=====\n")
new = new.rstrip("\n") if not old.endswith("\n") else new
src = open(os.path.join("/repo", rel)).read()
if src.count(old) != 1:
    print(f"OLD occurs {src.count(old)} times in {rel}", file=sys.stderr); sys.exit(2)
d = os.path.join("/tmp/selfmut", prop, name)
os.makedirs(d, exist_ok=True)
tmp = tempfile.mkdtemp()
a, b = os.path.join(tmp, "a", rel), os.path.join(tmp, "b", rel)
os.makedirs(os.path.dirname(a)); os.makedirs(os.path.dirname(b))
open(a, "w").write(src); open(b, "w").write(src.replace(old, new))
p = subprocess.run(["diff", "-u", os.path.join("a", rel), os.path.join("b", rel)], cwd=tmp, capture_output=True, text=True)
open(os.path.join(d, "patch.diff"), "w").write(p.stdout)
json.dump({"property": prop, "summary": name}, open(os.path.join(d, "meta.json"), "w"))
shutil.rmtree(tmp)
r = subprocess.run([sys.executable, os.path.join(os.path.dirname(__file__), "seedtest.py"), d] + extra, capture_output=True, text=True)
try:
    j = json.loads(r.stdout[r.stdout.index("{"):])
    print(name, "| applies", j.get("patch_applies"), "| caught", j.get("caught"), "|", [l for l in j.get("check_lines", []) if l.startswith("VIOL")],
          "|", (j.get("replay") or {}).get("kind"), [o["clause"] for o in (j.get("replay") or {}).get("oracle", [])][:3], j.get("check_err", "")[-300:])
except Exception as e:
    print(name, "ERR", r.stdout[-500:], r.stderr[-500:])
