#!/usr/bin/env python3
"""Re-run every kept seeded change (seeded/<P>/<name>/) against the CURRENT checks, in scratch copies, in parallel.

usage: tools/reseed_all.py [-j N] [--only C07,C11] [--names 'p*'] [--tier quick]
Writes seeded/matrix.json: per change {demo_clean_rc, demo_patched_rc, check_rc, caught, failing_input_found, line}.
h* changes are behaviour preserving: expected check_rc == 0.  Nothing is applied to /repo.
"""
import argparse, concurrent.futures as cf, fcntl, fnmatch, glob, json, os, subprocess, sys, time

VERIF = os.path.dirname(os.path.dirname(os.path.abspath(__file__)))


def one(d, tier):
    prop = os.path.basename(os.path.dirname(d))
    t0 = time.time()
    try:
        p = subprocess.run([sys.executable, os.path.join(VERIF, "tools", "seedtest.py"), d, "--prop", prop, "--tier", tier],
                           capture_output=True, text=True, timeout=3600)
        out = p.stdout
        res = json.loads(out[out.index("{"):])
    except Exception as e:  # noqa
        res = {"error": repr(e)[:300]}
    rp = res.get("replay") or {}
    vl = [l for l in res.get("check_lines", []) if l.startswith("VIOLATION")]
    return prop, os.path.basename(d), {
        "demo_clean_rc": res.get("demo_clean_rc"), "demo_patched_rc": res.get("demo_patched_rc"),
        "patch_applies": res.get("patch_applies"), "check_rc": res.get("check_rc"), "caught": res.get("caught"),
        "failing_input_found": rp.get("failing_input_found"), "line": (vl[0] if vl else None),
        "error": res.get("error") or res.get("check_err"), "wall": round(time.time() - t0, 1)}


def main():
    ap = argparse.ArgumentParser()
    ap.add_argument("-j", type=int, default=6)
    ap.add_argument("--only", default="")
    ap.add_argument("--names", default="*")
    ap.add_argument("--tier", default="quick")
    a = ap.parse_args()
    only = set(x for x in a.only.split(",") if x)
    dirs = [d for d in sorted(glob.glob(os.path.join(VERIF, "seeded", "C*", "*")))
            if os.path.exists(os.path.join(d, "patch.diff"))
            and (not only or os.path.basename(os.path.dirname(d)) in only)
            and fnmatch.fnmatch(os.path.basename(d), a.names)]
    mpath = os.path.join(VERIF, "seeded", "matrix.json")
    mat = json.load(open(mpath)) if os.path.exists(mpath) else {}
    head = subprocess.run("git -C /repo rev-parse --short HEAD", shell=True, capture_output=True, text=True).stdout.strip()
    vhead = subprocess.run(f"git -C {VERIF} rev-parse --short HEAD", shell=True, capture_output=True, text=True).stdout.strip()
    with cf.ThreadPoolExecutor(a.j) as ex:
        for prop, name, r in ex.map(lambda d: one(d, a.tier), dirs):
            r["repo_head"], r["verif_head"], r["tier"] = head, vhead, a.tier
            with open(mpath + ".lock", "w") as lk:   # several engineers run this at once: merge under a lock
                fcntl.flock(lk, fcntl.LOCK_EX)
                mat = json.load(open(mpath)) if os.path.exists(mpath) else {}
                mat.setdefault(prop, {})[name] = r
                json.dump(mat, open(mpath, "w"), indent=1, sort_keys=True)
            exp = 0 if name.startswith("h") else 1
            neutral = (not name.startswith("h")) and r["demo_patched_rc"] == 0
            tag = "ok" if r["check_rc"] == exp else ("neutralised" if neutral and r["check_rc"] == 0 else "UNEXPECTED")
            print(f"{prop}/{name}: check_rc={r['check_rc']} demo={r['demo_clean_rc']}/{r['demo_patched_rc']} "
                  f"fi={r['failing_input_found']} {tag} {r['wall']}s", flush=True)


if __name__ == "__main__":
    main()
