#!/usr/bin/env python3
"""round-7 seeding prompt: TWO changes per property, two properties per agent. The agent gets the property texts and its own
worktree only - nothing from /verif (no list of what earlier rounds tried).  Emphasis: what the change NEEDS in order to manifest.
usage: tools/seed_prompt7.py <tag> C01 C02"""
import json, os, sys
N0 = int(os.environ.get("S_START", "1"))   # first index: s<N0>, s<N0+1>
OUT = os.environ.get("S_OUT", "/tmp/seed_out7")
tag, pids = sys.argv[1], sys.argv[2:]
props = {json.loads(l)['id']: json.loads(l) for l in open('/verif/properties.jsonl')}
wt = f"/tmp/wt7_{tag}"
blocks = []
for pid in pids:
    p = props[pid]
    blocks.append(f"""  [{pid}] TITLE: {p['title']}
    STATEMENT: {p['statement']}
    QUANTIFIED OVER: {p['quantifier']['text']}
    RELEVANT FILES: {', '.join(p['anchors']['files'])}
    MECHANISMS: {'; '.join(m['name'] + ' @ ' + m['where'] for m in p['anchors']['mechanism'])}
    OBSERVED AT: {'; '.join(p['anchors'].get('observe_at', []))}""")
print(f"""You are testing how robust a Python library is against subtle regressions. The library (coredipper/operon, package operon_ai: biology-themed agent control motifs) is checked out for you as a scratch git worktree at {wt} (your own copy: edit it freely; do NOT touch /repo, do NOT read or touch anything under /verif; do NOT use `git stash`; for comparisons against the original make a copy with `mkdir -p <dir> && git -C {wt} archive HEAD | tar -x -C <dir>` and delete it when done). Python with the library's dependencies: /venv/bin/python - always run with PYTHONPATH={wt} so that YOUR copy is imported (check `operon_ai.__file__`). Test suite: `cd {wt} && PYTHONPATH={wt} /venv/bin/python -m pytest -q -p no:cacheprovider --timeout=900 tests` (658 tests, all pass on the unmodified copy, ~12 s).

The library is supposed to satisfy these semantic properties:

{chr(10).join(blocks)}

TASK: for EACH of the {len(pids)} properties above produce TWO independent changes (s{N0}, s{N0+1}) to the library source, each of which breaks that property (as stated, observable at the OBSERVED AT points through the public API) such that, taken alone:
  (a) the code still imports and the existing test suite still passes completely (run it!),
  (b) the property is now violated,
  (c) the violation needs something SPECIFIC to manifest - NOT something ordinary use would expose at once,
  (d) you have a demonstration: a small standalone Python program demo.py (no pytest; exit code 0 = property held, 1 = violated, printing what went wrong) that exits 1 WITH the change and 0 WITHOUT it.
First read the relevant files carefully and think about what a careful verifier would most likely NOT exercise. The two changes for one property must be of DIFFERENT kinds from this list (vary them across properties too):
  1. a MULTI-STEP SEQUENCE: the defect needs a particular history on one object (e.g. the N-th call after a reset / rollback / import / replicate / config reassignment; an internal list or cache reaching a trimming threshold such as 100 or 1000 entries; a counter crossing a boundary; the same id re-used after it ended; operations in an unusual but legal order);
  2. a FAULT AT A PARTICULAR POINT: a user callback / tool / validator / observer / work function raising (or raising a BaseException subclass, or returning an unexpected but legal value such as None, a falsy object, a generator, a subclass instance) at exactly one step of a multi-step update, so that state is left half-applied or a later call misbehaves;
  3. an UNUSUAL BUT LEGAL INPUT OR CONFIGURATION: boundary numerics (0, negative, huge, float where int is usual, bool where int is usual, NaN/-0.0 where floats are accepted), empty / one-element / duplicate-containing collections, str / int / dict subclasses, Unicode that changes under normalisation or case mapping, names that collide with internal keys, limits set to 0 or 1, two features enabled together that are usually used alone;
  4. TWO COOPERATING SITES in different functions or files, each of which looks fine (and IS behaviour-preserving) alone - you must check that each half alone keeps demo.py at exit 0 - that break the property only together;
  5. a PARTICULAR INTERLEAVING of two threads (only for mechanisms that use locks or are documented thread-safe): a check-then-act window, a lock released too early or taken too late, a read outside the lock. The demo must force the interleaving deterministically (events / barriers / a patched hook inside the window), not rely on luck;
  6. a TIME- or CLOCK-dependent defect (only where the mechanism reads a clock): elapsed time exactly on a boundary, a clock that does not advance between two calls, a timeout of 0, a long gap.
Keep each patch realistic and small (3-40 changed lines), in the tone of an ordinary maintenance commit (no comments announcing the bug). Do not merely delete a guard or flip an operator in the most obvious line - the edit should look plausible to a reviewer.

DELIVERABLE, for each property id P and n in ({N0}, {N0+1}), in {OUT}/P/s<n>/ :
  - patch.diff   (`git -C {wt} diff` of that change alone, relative to the unmodified worktree HEAD; must apply with `git apply` to a clean checkout)
  - demo.py      (the demonstration; takes no arguments; imports operon_ai from PYTHONPATH; finishes within 60 s)
  - meta.json    {{"property": "P", "kind": <1-6>, "summary": "...what was changed and where...", "clause_broken": "...", "needs_to_manifest": "...the specific sequence/input/fault/interleaving...", "verified": "...exact commands you ran and their results (suite pass count with the patch, demo exit codes with and without the patch; for cooperating edits: demo exit code with each half alone)..."}}
Work on one change at a time: edit, run the suite, run the demo, save the diff (mkdir -p the directory), then `git -C {wt} checkout -- .` (and remove any new untracked files) before the next one. Leave the worktree clean when you finish. Reply with a short summary of the four changes.""")
