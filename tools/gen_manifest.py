#!/usr/bin/env python3
"""Regenerate MANIFEST.json from tools/claims.json (one entry per claimed property)."""
import json, os, sys
here = os.path.dirname(os.path.dirname(os.path.abspath(__file__)))
claims = json.load(open(os.path.join(here, "tools", "claims.json")))
props = [json.loads(l) for l in open(os.path.join(here, "properties.jsonl"))]
base = json.load(open("/root/.vp/BASELINE.json"))["cmd"] if os.path.exists("/root/.vp/BASELINE.json") else \
    "cd /repo && /venv/bin/python -m pytest -ra -q -p no:cacheprovider --timeout=900 --continue-on-collection-errors"
checks, na = [], []
for p in props:
    c = claims["checks"].get(p["id"])
    if not c:
        na.append({"property_id": p["id"], "reason": claims["not_applicable"].get(p["id"], "check not built yet (work in progress); no claim is made")})
        continue
    checks.append({
        "property_id": p["id"],
        "quick_cmd": f"./check {p['id']} --tier quick",
        "thorough_cmd": f"./check {p['id']} --tier thorough",
        "evidence_file": f"evidence/{p['id']}.json",
        "replay_cmd_template": f"./check {p['id']} --replay {{path}}",
        "engine": "lean4-model+correspondence",
        "level_claimed": {"category": "proof", "text": c["text"], "design_ref": c.get("design_ref", f"DESIGN.md section 7, {p['id']}")},
        "level_note": c["note"],
        "technique": c.get("technique", "Lean 4 theorems over an executable model + differential correspondence with the implementation"),
    })
m = {
    "version": 1,
    "setup_cmd": "cd lean && lake build $(cat ../tools/targets.txt)",
    "hooks": {"guard": "OPERON_VERIF", "enable": "no source hooks are needed: clocks, locks, library recorders and stub agents are substituted from the harness process through public attributes; ./check exports OPERON_VERIF=1 for uniformity",
              "baseline_off_cmd": base.replace(" --junitxml=<file>", ""), "source_commits": [], "add_only": True},
    "engines": [
        {"name": "lean4-model+correspondence", "path": "lean/", "serves_properties": [c["property_id"] for c in checks],
         "kind_free_text": "Lean 4.33 lake project Operon (models, lemmas, property theorems, line-protocol drivers) + python harness harness/vf (extractors, generators, implementation runners, oracles)"}],
    "checks": checks,
    "notes": claims.get("notes", ""),
    "not_applicable": na,
}
json.dump(m, open(os.path.join(here, "MANIFEST.json"), "w"), indent=1)
tg = []
for c in checks:
    for kind in ("Props", "Drv"):
        if os.path.exists(os.path.join(here, "lean", "Operon", kind, c["property_id"] + ".lean")):
            tg.append(f"Operon.{kind}.{c['property_id']}")
    if os.path.exists(os.path.join(here, "lean", "Operon", "Props", c["property_id"] + "T.lean")):
        tg.append(f"Operon.Props.{c['property_id']}T")      # optional tie module (see harness/vf/core.py::lean_check)
open(os.path.join(here, "tools", "targets.txt"), "w").write(" ".join(tg) + "\n")
print("MANIFEST.json:", len(checks), "checks,", len(na), "not claimed")
