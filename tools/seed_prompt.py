#!/usr/bin/env python3
"""print the prompt for a seeding sub-agent: property text only, nothing from /verif's machinery."""
import json, sys
pid = sys.argv[1]
p = [json.loads(l) for l in open('/verif/properties.jsonl') if json.loads(l)['id'] == pid][0]
print(f"""You are testing how robust a Python library is against subtle regressions. The library (coredipper/operon, package operon_ai: biology-themed agent control motifs) is checked out for you as a scratch git worktree at /tmp/wt_{pid} (your own copy: edit it freely; do NOT touch /repo or /verif, do not read anything under /verif). Python with the library's dependencies: /venv/bin/python — always run with PYTHONPATH=/tmp/wt_{pid} so that YOUR copy is imported (check `operon_ai.__file__`). Test suite: `cd /tmp/wt_{pid} && PYTHONPATH=/tmp/wt_{pid} /venv/bin/python -m pytest -q -p no:cacheprovider --timeout=900 tests` (658 tests, all pass on the unmodified copy).

The library is supposed to satisfy this semantic property:

  TITLE: {p['title']}
  STATEMENT: {p['statement']}
  QUANTIFIED OVER: {p['quantifier']['text']}
  RELEVANT FILES: {', '.join(p['anchors']['files'])}

TASK: produce THREE independent, realistic changes to the library source (each a small patch a developer could plausibly make while refactoring, optimising or 'fixing' something) such that, for each change taken alone:
  (a) the code still imports and the existing test suite still passes completely (run it!),
  (b) the property above is now violated,
  (c) the violation needs something specific to manifest — a particular multi-step sequence of operations, an unusual input or configuration, a fault at a particular point, a particular interleaving, or two cooperating sites that each look fine alone — NOT something that ordinary use would expose at once,
  (d) you have a demonstration: a small standalone Python program demo.py (no pytest needed; exit code 0 = property held, exit code 1 = property violated, printing what went wrong) that exits 1 WITH the change and exits 0 WITHOUT it (on the unmodified copy).
Make the three changes different in kind (different functions / different clauses of the property / different mechanisms), and subtle: prefer changes that alter behaviour only on a narrow set of inputs or histories.

DELIVERABLE, for i = 1, 2, 3, in /tmp/seed_out/{pid}/m<i>/ :
  - patch.diff   (`git -C /tmp/wt_{pid} diff` of that change alone, relative to the unmodified worktree HEAD; must apply with `git apply` to a clean checkout)
  - demo.py      (the demonstration; takes no arguments; imports operon_ai from PYTHONPATH)
  - meta.json    {{"property": "{pid}", "summary": "...what was changed...", "clause_broken": "...", "needs_to_manifest": "...the specific sequence/input/fault...", "verified": "...exact commands you ran and their results (suite pass count with the patch, demo exit codes with and without the patch)..."}}
Work on one change at a time: edit, run the suite, run the demo, save the diff, then `git -C /tmp/wt_{pid} checkout -- .` before the next one. Leave the worktree clean (checked out, no edits) when you finish. Reply with a short summary of the three changes.""")
