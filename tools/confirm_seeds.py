#!/usr/bin/env python3
"""Confirm freshly delivered seeded changes (/tmp/seed_out/<P>/<name>/) in scratch copies and keep them under seeded/.

usage: tools/confirm_seeds.py [-j N] [--names 'p*'] C01 C02 ...
For each: demo without/with patch, full suite with patch, quick check -> seeded/<P>/<name>/ (meta.json records what was run).
A change whose demo does not separate (0 without, 1 with) or whose suite fails is NOT kept (h* changes: demo 0/0).
"""
import argparse, concurrent.futures as cf, fnmatch, glob, json, os, subprocess, sys
VERIF = os.path.dirname(os.path.dirname(os.path.abspath(__file__)))

def one(d):
    prop = os.path.basename(os.path.dirname(d)); name = os.path.basename(d)
    p = subprocess.run([sys.executable, f"{VERIF}/tools/seedtest.py", d, "--prop", prop, "--suite"], capture_output=True, text=True, timeout=3600)
    try:
        res = json.loads(p.stdout[p.stdout.index("{"):])
    except Exception as e:
        return prop, name, {"error": repr(e), "out": p.stdout[-300:] + p.stderr[-300:]}, False
    harmless = name.startswith("h")
    suite_ok = bool(res.get("suite_tail")) and " passed" in res["suite_tail"][0] and "failed" not in res["suite_tail"][0]
    sep = (res.get("demo_clean_rc") == 0 and res.get("demo_patched_rc") == (0 if harmless else 1))
    keep = bool(res.get("patch_applies")) and suite_ok and sep
    if keep:
        subprocess.run([sys.executable, f"{VERIF}/tools/seedtest.py", d, "--prop", prop, "--suite", "--save", name], capture_output=True, text=True, timeout=3600)
    return prop, name, res, keep

def main():
    ap = argparse.ArgumentParser(); ap.add_argument("-j", type=int, default=6); ap.add_argument("--names", default="*"); ap.add_argument("props", nargs="+")
    a = ap.parse_args()
    dirs = [d for P in a.props for d in sorted(glob.glob(f"/tmp/seed_out/{P}/*")) if fnmatch.fnmatch(os.path.basename(d), a.names)
            and all(os.path.exists(os.path.join(d, f)) for f in ("patch.diff", "demo.py", "meta.json"))]
    with cf.ThreadPoolExecutor(a.j) as ex:
        for prop, name, res, keep in ex.map(one, dirs):
            print(f"{prop}/{name}: keep={keep} demo={res.get('demo_clean_rc')}/{res.get('demo_patched_rc')} suite={res.get('suite_tail')} check_rc={res.get('check_rc')} "
                  f"fi={(res.get('replay') or {}).get('failing_input_found')} {[l for l in res.get('check_lines', []) if l.startswith('VIOLATION')][:1]} {res.get('error','')}", flush=True)
main()
